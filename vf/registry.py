"""Per-property registration data; bin/gen_manifest turns this into MANIFEST.json."""

CHECKS = {
    "C18": dict(
        engine="T",
        technique="stateless model checking of the real Pool/Worker threads: exhaustive schedule enumeration under a baton scheduler, preemption-bounded (CHESS style)",
        text="Every interleaving (source-line granularity inside svr_threads.Pool/Worker, real threads, cooperative Lock/Event) of an accept "
             "thread running submit/release/wait/close scripts, optionally with close() issued by a second thread, for 5 (MIN,MAX) pool sizes, "
             "up to the stated preemption and reordering bounds; oracle: each accepted job starts at most once and is served unless the pool was "
             "closed first, refusals only while MAX workers are occupied, len(idle)+len(busy) <= MAX at every scheduling point, no deadlock, "
             "no uncaught exception, nothing starts after close() returned, every worker exits.",
        note="Interleavings inside one source line / C-level races are not modelled; blocking primitives are cooperative replacements; bounds in evidence.",
        design_ref="DESIGN.md section 3 C18",
    ),
    "C15": dict(
        engine="T",
        technique="stateless model checking of the real NameServer under a baton scheduler (all schedules up to a preemption bound) with a brute-force linearizability oracle",
        text="Every interleaving (source-line granularity inside NameServer and MemoryStorage; storage-call granularity on the sqlite back-end) of 2-3 "
             "client threads running 1-2 operations each out of safe/unsafe register, remove by name/prefix/regex, set_metadata, lookup, list, count on "
             "shared names from three initial maps, up to the stated preemption bound; every complete call/return history and the final map must be "
             "explained by some sequential order on a dict model; additionally exactly-one-safe-registration, removal counts summing to one and "
             "absence of internal errors are reported as separate fingerprints.",
        note="Line granularity; sqlite transactions are atomic steps (sqlite's own locking is trusted); operation alphabet and thread counts are bounded.",
        design_ref="DESIGN.md section 3 C15",
    ),
    "C17": dict(
        engine="S",
        technique="exhaustive enumeration of socket-behaviour scripts (fault sequences) against the real receive_data/send_data with a stream-cursor reference model",
        text="All scripts up to length 5 (quick) / 7 (thorough) of per-call socket answers (deliver 1/2/half/n-1/all, every retryable errno, fatal errnos, "
             "timeout, EOF; partial writes 0/1/2/half/n-1/all) followed by faithful delivery, for 8 request sizes incl. the 60000-byte chunk boundary, streams "
             "ending early/exactly/late, MSG_WAITALL on/off, ssl-like sockets, blocking and timeout send mode, three buffer types. Oracle: returns exactly the "
             "next n bytes and consumes exactly n, or raises the exception class the first terminal event dictates with partialData = bytes consumed; the "
             "fake peer receives the buffer exactly once in order, or an exception is raised after a clean prefix.",
        note="The socket is a scripted object (no kernel); errno set is the Linux one; sleep between retries is virtual.",
        design_ref="DESIGN.md section 3 C17",
    ),
    "C06": dict(
        engine="S",
        technique="exhaustive input enumeration (field products, all fragmentations of small messages, all single-field mutations) against a reference decoder",
        text="Full product of boundary values of every header field x payloads around the compression threshold x 9 annotation dictionaries x correlation id x "
             "compression x MAX_MESSAGE_SIZE in {default, =size, =size-1}, each encoded by the real SendingMessage and read back by the real recv_stub over a "
             "fragmenting fake socket (every single cut near the structure boundaries; every cut pair / triple for small messages) with a sentinel message behind "
             "it; conversely every single-field / chunk-length / truncation / prefix mutation of representative encodings is given to both real decoders and the "
             "accept/reject verdict, decoded fields, bytes consumed and re-encoding are compared with an independent reference decoder.",
        note="Reference decoder written from the documented layout; asserts enabled; payload sizes bounded (<= 1 KiB), 4 GiB lengths only as header values.",
        design_ref="DESIGN.md section 3 C06",
    ),
    "C19": dict(
        engine="S",
        technique="exhaustive input enumeration over a URI grammar with near-misses and all single-character edits of seed URIs; pairwise equality/hash check; hash-seed enumeration",
        text="Every string of protocol x object x location from a grammar including near-misses, and every single-character insertion/substitution/deletion/"
             "transposition at every position of six seed URIs, is given to the real parser; for every accepted string the text form must be accepted, parse to an equal "
             "URI, be a fixed point, hash equally, survive all four serializers, the Proxy state path and register->lookup on both name-server back-ends; all pairs "
             "of accepted URIs are compared for location-implies-inequality and equal-implies-equal-hash; tag-list URIs are re-run under several PYTHONHASHSEED values.",
        note="Alphabet of strings is finite (ASCII punctuation, a few non-ASCII characters); resolution through a live name server is not part of this check.",
        design_ref="DESIGN.md section 3 C19",
    ),
    "C14": dict(
        engine="S",
        technique="explicit-state breadth-first search over operation histories on the real name server (both back-ends) in lock-step with a dict model; statement-level fault enumeration",
        text="BFS from two initial states over a 70-130 letter alphabet of mutating operations (names with case pairs, SQL wildcards, regex metacharacters, unicode, empty "
             "string, the server's own name), states deduplicated by (map, memory storage contents, raw sqlite rows); in every state ~100 queries (lookup, list plain/"
             "prefix/regex/metadata, yplookup all/any with sets and duplicate lists, count, invalid combinations) are compared three-way, the database is reopened, the "
             "state is rebuilt directly for a differential check, and for the shallow levels every statement and commit of every mutating operation is made to fail, "
             "after which the reopened map must equal the pre-state and no orphan rows may remain.",
        note="Failure points are sqlite statement/commit failures (not process crashes); depth and state caps are reported in the evidence.",
        design_ref="DESIGN.md section 3 C14",
    ),
    "C01": dict(
        engine="S+N",
        technique="exhaustive enumeration of value trees x serializers x configurations x positions through the real Proxy/Daemon pair over an in-memory transport; position-differential oracle",
        text="Every value tree up to 3 (quick) / 4 (thorough) nodes over 32 lossless-core atoms and 10 extended atoms with list/dict/tuple/set/frozenset/int-key containers, for "
             "4 serializers x compression x annotations, is sent as positional argument, keyword argument, result, batch result, streamed item, attribute write and "
             "attribute read through the real client and daemon code. The result position defines the serializer's mapping M; every other position must deliver M(v) "
             "(or all fail), M must be deterministic and idempotent, and lossless-core values must arrive exactly (type-strict equality incl. nan and signed zero); "
             "serializer-level loadsCall(dumpsCall()) vs loads(dumps()) pairs are compared on the same trees.",
        note="Transport is faithful in-memory delivery (fragmentation is C06/C17's business); values outside the enumerated atoms/tree sizes are not covered.",
        design_ref="DESIGN.md section 3 C01",
    ),
    "C11": dict(
        engine="S+N",
        technique="exhaustive enumeration of call sequences (histories) with a differential oracle: batch vs oneway batch vs sequential on identical fresh objects through the real Proxy/Daemon",
        text="Every call sequence of length 0..3 (quick) / 0..4 (thorough) over an 11-letter alphabet mixing succeeding methods (positional and keyword arguments), three "
             "raising methods, an unexposed, a private and a missing member and a call with bad arguments, for each of the four serializers, is executed call by call, "
             "as a batch and as a oneway batch on three identical fresh objects; the result prefix, the failing call's exception class and args and its position (or "
             "failure on submission), the execution logs and the final object states must coincide, the oneway batch must return None, and nothing unexposed may run.",
        note="Differential oracle: no hand-written expected values; faithful in-memory transport; sequence length bounded.",
        design_ref="DESIGN.md section 3 C11",
    ),
    "C07": dict(
        engine="S+N",
        technique="exhaustive enumeration of exception classes x argument/attribute shapes x serializers x call kinds through the real Proxy/Daemon pair",
        text="Every Exception subclass of builtins and every PyroError subclass x 5 argument tuples from the lossless core x 3 attribute dictionaries x 4 serializers "
             "x {plain call, property read, batch member first/middle/last, streamed item at index 0/2} is raised by a real remote method; the caller must catch "
             "exactly that class with equal args, equal custom attributes and a remote traceback naming the remote frame; unserialisable attribute/argument and a class "
             "unknown to the receiver must yield a Pyro error describing the original; after every failure the same proxy must serve the next call (one communication "
             "error is tolerated where the daemon deliberately drops the connection).",
        note="BaseException-only classes are not enumerated (the daemon lets them propagate by convention); shapes a constructor rejects or rewrites locally are skipped.",
        design_ref="DESIGN.md section 3 C07",
    ),
    "C04": dict(
        engine="S",
        technique="exhaustive input enumeration of class-tagged payload trees over a tag alphabet x flags x member shapes x wrappers x codecs x decode paths; closed-world type oracle plus interpreter audit hook",
        text="Class-tagged dicts whose tag ranges over every builtins name (bare and namespace-prefixed), every attribute of Pyro5.errors, Pyro internals, struct, every public "
             "sqlite3 name, os/subprocess/importlib targets, a harness-local canary class, dunder and degenerate tags, combined with the four __exception__ flag values, "
             "12 member variants (hostile attribute names, wrong shapes, nested tagged dicts, proxy/uri states) and 5 wrappers, are encoded with the raw codec of each "
             "serializer and decoded through loads and loadsCall. Oracle: only plain data and the closed set of classes named by the property may appear, every other "
             "tag and every tag containing '__' must raise, no import/exec/open/socket/subprocess/os audit event fires while decoding and the canary is never constructed.",
        note="The allowed set is stated independently from the property text; payload trees are bounded (depth <= 4, one tagged node plus nested ones in members).",
        design_ref="DESIGN.md section 3 C04",
    ),
    "C02": dict(
        engine="S+N",
        technique="exhaustive enumeration of generated class shapes (programs) x requested names x request kinds against a reference predicate, through the real daemon dispatch",
        text="About 450-500 class shapes generated with the real @expose/@oneway decorators (12 member kinds x base/subclass/override x 4 exposure modes x oneway x public/"
             "private/dunder/reserved names) are registered in a real daemon; for each, ~45 requested names (the member, its private and dunder variants, reserved dunder "
             "names, dotted paths, a unicode look-alike, empty and non-string names) are sent as normal call, oneway call, batch, attribute read and attribute write "
             "past the client-side filter. Oracle from the shape specification alone: code runs only for the named exposed non-private member and once; refused "
             "requests get an error reply (none for oneway), leave instance and class dictionaries unchanged; the advertised metadata equals the servable set and "
             "everything served is advertised.",
        note="An exposed free function stored in an attribute is explored but not judged; one serializer (gates are serializer independent).",
        design_ref="DESIGN.md section 3 C02",
    ),
    "C16": dict(
        engine="S+N",
        technique="explicit-state breadth-first search over registry histories, each replayed on a fresh real daemon over the in-memory transport, against a dict model",
        text="BFS over histories of ~55 operations (register instances/class with explicit, colliding, generated and reserved ids, force and weak flags; unregister by object "
             "and by id; dropping the last application reference followed by a collection) to depth 3 (quick) / 4 (thorough), states deduplicated by registry contents, "
             "per-object registration attributes and liveness. In every state the ids reported by the daemon, the target of a call to every id, uriFor, and the way each "
             "pool object travels when returned from a remote method (proxy reaching that very object, or by value exactly like a never-registered instance; serpent, "
             "json, msgpack) are compared with the model; refusals are compared operation by operation.",
        note="Forced replacement of the daemon's own id and forcing one object under two ids are explored but not judged; depth/state caps in evidence.",
        design_ref="DESIGN.md section 3 C16",
    ),
    "C09": dict(
        engine="S+N+T",
        technique="exhaustive enumeration of connection histories x instance shapes x creators against a serial-number model, plus stateless model checking of concurrent first calls in _getInstance",
        text="Every valid history of open/call/close steps over 2-3 connections up to length 5 (quick) / 6 (thorough), for the three instance modes x five instance shapes "
             "(truthy, falsy by __len__ / __bool__, __eq__ always True / False) x four creators (none, counting, failing once, wrong type) runs against a fresh real "
             "daemon; the model fixes which instance serves each call, how many instances and creator calls happen and that a session instance dies with its connection. "
             "In addition every schedule (line granularity inside Daemon._getInstance, preemption bound 2-3) of 2-3 threads making their first calls concurrently must "
             "yield exactly one 'single' instance and one creator call, and unshared session instances.",
        note="Schedule part drives _getInstance on a transport-less daemon shell; history part uses the synchronous in-memory transport (multiplex event handler).",
        design_ref="DESIGN.md section 3 C09",
    ),
    "C10": dict(
        engine="S+N+T",
        technique="explicit-state BFS over stream histories with a virtual clock against a list model, plus stateless model checking of the stream table under concurrent fetch/close/disconnect/housekeeping",
        text="BFS (deduplicated by model state and server-side pull counters) over histories of next/close/release/reconnect/ping/housekeeping/clock-advance steps to depth "
             "4 (quick) / 5 (thorough) on one or two streams from one or two proxies, four stream kinds, ITER_STREAM_LIFETIME {0,5} x ITER_STREAM_LINGER {0,30} and "
             "streaming disabled, on the real Proxy/_StreamResultIterator/Daemon code with a virtual clock: every item, StopIteration, re-raised generator exception or "
             "'terminated' error and the size of the server's stream table after every step must match the model. Separately every schedule (line granularity, "
             "preemption bound 2-3) of fetch, second fetch, close, disconnect and housekeeping racing on one table must end without internal error in a state some "
             "serial order produces.",
        note="Expiry is judged at housekeeping passes (the mechanism the property anchors); schedule part runs on a transport-less daemon shell.",
        design_ref="DESIGN.md section 3 C10",
    ),
    "C20": dict(
        engine="S+N",
        technique="exhaustive enumeration of HTTP requests x gateway configurations (and two-request histories) through the real WSGI app against a reference function, with traffic counters",
        text="The full product request method x ~30 paths x 10 query strings x key header {absent, wrong, right} x options header x 6 configurations (key unset/set x expose "
             "pattern default/anchored/empty) is given to the real pyro_app standing in front of a real name server and three real objects on the in-memory transport. "
             "A reference function written from the statement gives the allowed status codes, whether any Pyro traffic may occur and which invocation (object, member, "
             "parameters) must be logged exactly once; connection/byte/lookup counters and per-object invocation logs decide 'without any Pyro traffic' and 'exactly "
             "the named member once'. Two-request histories check that no request changes the behaviour of the next one.",
        note="The app is driven with WSGI environ dicts (no HTTP server); locating the name server is replaced by a factory for a proxy to the harness' name server.",
        design_ref="DESIGN.md section 3 C20",
    ),
    "C03": dict(
        engine="N+T",
        technique="stateless exploration of fault scripts (wire adversary decisions as explorer choices) and message-level interleavings over the real Proxy and Daemon on an in-memory network",
        text="For call histories on one proxy (all of length 1-2 over normal/raising/oneway/batch/attribute/stream calls, selected or all of length 3), MAX_RETRIES 0/1/2, "
             "sequence counter started at 0 and at 0xFFFE, multiplex and thread-pool server, the adversary's decision for every request - deliver, reply lost, reset "
             "before/after processing, reply cut at header or payload offsets followed by reset, stale reply replayed, sequence number rewritten, reply duplicated - is "
             "an explorer choice; every script with up to 1-2 faults is executed together with the thread interleavings it induces. Oracle: a call returns its own token "
             "/ raises its own exception / raises a communication error, per-token execution counters respect exactly-once (at most 1+N with retries), oneway calls "
             "read nothing, and once the faults stop the same proxy answers (after at most one further communication error caused by leftover garbage).",
        note="Faults act on whole messages; handshake messages are delivered faithfully; timeouts are virtual (fire when nothing else can run).",
        design_ref="DESIGN.md section 3 C03",
    ),
    "C08": dict(
        engine="N+T",
        technique="exhaustive enumeration of first messages x validator behaviours x pipelined message sequences by a raw peer against the real request loop of both servers, with message-level interleavings",
        text="A raw peer sends one of 30 first messages (valid CONNECT per serializer, CONNECT for an unknown object / unknown serializer / malformed payloads, every other message "
             "type including INVOKE, oneway and batch of a logging method, corrupt headers, garbage, nothing) with up to three further messages pipelined behind it in the same "
             "write or after the reply, against a daemon whose validator accepts, returns odd values or raises one of six exception types, on the multiplex and the thread-pool "
             "server with a witness client, under all interleavings within the budget. Oracle: the logging object records nothing unless that peer received CONNECTOK, which "
             "only a valid handshake accepted by the validator gets; non-CONNECT first message, raising validator and unknown object yield CONNECTFAIL with the reason "
             "followed by end of stream and nothing else; no RESULT on a refused connection; the witness is served.",
        note="Pre-connected socket pairs are exempt by the statement; a validator raising Pyro's ConnectionClosedError is treated as 'peer went away' by the daemon.",
        design_ref="DESIGN.md section 3 C08",
    ),
    "C05": dict(
        engine="N+T",
        technique="exhaustive enumeration of structure-aware hostile byte streams x phases x endings x server configurations on the real request loop, with bounded exhaustive interleaving of attacker, witness and fresh client",
        text="About 150 hostile streams (every header field of a valid CONNECT and INVOKE at boundary values, inconsistent length fields, every truncation at field boundaries, "
             "garbage payloads, semantically hostile invokes such as unknown objects/members and methods raising unserialisable Exception subclasses, raw garbage, an HTTP "
             "request) are sent as first bytes or after a valid handshake and ended by close, reset or read-then-close, against the multiplex and thread-pool server with and "
             "without COMMTIMEOUT and with a pool of one held by the witness. Every stream runs under the default schedule; a representative subset (quick) or all "
             "(thorough) under every schedule with one preemption / 1-2 reorderings of attacker, witness and a later fresh client. Oracle: the witness receives exactly its "
             "three tokens, the fresh client is served, the loop thread lives, busy/idle sets resp. the selector map return to their idle shape.",
        note="Hostile bytes arrive in whole writes; a partial message legitimately keeps a single-threaded multiplex server waiting until the peer disconnects or COMMTIMEOUT fires.",
        design_ref="DESIGN.md section 3 C05",
    ),
    "C13": dict(
        engine="N+T",
        technique="exhaustive enumeration of connection endings x tracked-resource shapes x server types on the real request loop, with bounded exhaustive interleaving against a second open connection",
        text="Connection A (session-mode class, resources tracked in methods or in the constructor, some untracked again) is ended in 17 ways - orderly release, SecurityError, "
             "malformed request, close before or right after the handshake, abrupt close and reset at byte offsets of a request, server-side timeout on a partial message and "
             "on an idle peer - on the multiplex and the thread-pool server, with and without a second connection B that holds its own resource and makes a call after A ended; "
             "representative configurations under every schedule with one preemption (including line granularity inside the worker hand-off). Oracle at quiescence: the "
             "disconnect hook ran exactly once per handshaken connection, every tracked resource was closed exactly once (and by the time A's disconnect handling has run, "
             "while B is still open), untracked ones never, session instances are dead, server-side sockets closed, worker/selector slot released, B undisturbed.",
        note="Offsets at field boundaries; an idle peer on a multiplex server is never read and hence not timed out (by design).",
        design_ref="DESIGN.md section 3 C13",
    ),
    "C12": dict(
        engine="N+T",
        technique="stateless exploration of call scripts of several clients x server types with bounded exhaustive interleavings (scheduling points inside method bodies and the oneway thread), wire-level oracle",
        text="Scripts of 1-3 clients over calls that return with a response annotation (set by assignment or in place), raise after setting one, oneway calls setting one, "
             "plain calls, batches, pings and reconnects run against the real request loop of the multiplex server and of the thread-pool server (roomy, and one worker reused "
             "by successive connections) under every interleaving within the budget; method bodies and the oneway thread contain scheduling points. Every method records "
             "the context it sees (request annotations, correlation id, sequence number, flags, serializer, connection, peer) - it must be its own request's, also after a "
             "yield; every server-to-client message is parsed on the wire: a RESULT may only carry annotations set by the request it answers, CONNECTOK/CONNECTFAIL/ping "
             "replies none; each client sees only its own call's annotations after a call.",
        note="Ownership is decided by tagging each annotation value with the id of the request that set it; budgets (1-2 preemptions, 1-3 reorderings) in evidence.",
        design_ref="DESIGN.md section 3 C12",
    ),
}

NOT_YET = {}


# what the third strengthening round added (appended to the texts above)
_ADDED = {
    "C02": ("S+N+T", " Added: an unexposed function in the instance dict shadowing an exposed method; nothing advertised may be refused; the advertised list after an inspection that "
                     "failed half way (a class-level descriptor raising 1-2 times); and every schedule (line granularity in _get_exposed_members, preemption bound 1-2) of 2-3 "
                     "threads inspecting a fresh class at once - each must be told the served set."),
    "C08": (None, " Added: falsy object ids (None, '', 0, []), a validator that decides per peer, and a rejected and an accepted handshake racing on the thread-pool server with "
                  "every line of Daemon._handshake a scheduling point (preemption bound 1-2)."),
    "C09": (None, " Added: every sequence (length <= 4 / 6) of {call via daemon A, call via daemon B, shut A down and start a new daemon} with two daemons of one process serving the "
                  "same class: one 'single' instance and one creator call per daemon."),
    "C18": ("T+N", " Added: jobs that end with an exception (no worker may stay counted busy afterwards); and a whole-system part: the real thread-pool server with all "
                   "THREADPOOL_SIZE (1-2) workers held by connected clients and a further peer with 11 kinds of first message, which must read a connect-failure naming the "
                   "workers followed by end of stream while the connected clients stay served, under message-level interleavings."),
    "C04": (None, " Added: near-miss namespaces of every trusted namespace (each importable as a logged canary module through a meta-path finder), serializer-like tags, and class "
                  "dicts nested in a Proxy state or used as args / attributes of an exception (17 member variants)."),
    "C12": (None, " Added steps: a oneway call whose connection is reset before the daemon reads it (peer address must be the caller's or None) and a raw peer whose first message "
                  "is refused (its CONNECTFAIL carries no annotation)."),
    "C13": (None, " Added: connection A owning 1-2 unfinished item streams, ITER_STREAM_LINGER 0 / 30 (with linger 0 the stream table must be empty at rest)."),
    "C16": (None, " Added: the return leg also through a client speaking another serializer than the daemon's; pool classes are created per replay (serializer type hooks are "
                  "process-global); below depth 2 the pool objects compare equal to everything, so identity and not equality must decide."),
    "C10": (None, " Added: the step 'connection reset underneath the proxy'; the client-side iterator/proxy condition is part of the state identity."),
    "C11": (None, " Added: two raising methods whose exception content only some serializers carry, and 4-8 daemon/client serializer mismatches (shorter sequences)."),
    "C03": (None, " Added: histories with a oneway batch followed by re-use of the same BatchProxy."),
    "C05": (None, " Added: methods and callback methods raising Exception subclasses that cannot even be printed (str/repr raising or returning a non-string)."),
    "C07": (None, " Added: attribute dictionaries with tuples, PEP 678 notes and dunder / private / non-ascii / odd names (6 shapes)."),
    "C06": (None, " A decoder call that neither accepts nor refuses within 2 s of real time is reported as non-terminating."),
    "C19": (None, " Added: tags and names ending in '@', an empty location; a text form that raises is a violation."),
}
for _id, (_engine, _more) in _ADDED.items():
    if _engine:
        CHECKS[_id]["engine"] = _engine
    CHECKS[_id]["text"] += _more


# what the fourth strengthening round added
_ADDED4 = {
    "C01": " Added: the mapping may not depend on what the process sent before (equal-valued Decimal forms sent in opposite orders on fresh numbers, as result and as argument).",
    "C03": " Added: the daemon's answer to every (re)connect handshake can be lost, cut or reset like any reply; after a call that *reported* a communication error the very next call "
           "over the healthy transport must be served.",
    "C04": " Added: a tagged dict (Proxy / URI / application class) in every argument position and under every attribute name that exception constructors and setters treat "
           "specially (args, __notes__, __cause__, __context__, __traceback__, msg, filename, name).",
    "C05": " Added: a well-behaved client that reconnects for every call (its accepts share poll rounds with the hostile bytes; descriptor numbers are reused and the order of ready "
           "descriptors is a choice of the explorer); an execution that never comes to rest (livelock) is a violation.",
    "C09": " Added: the class is unregistered (by object / by id / displaced by force) and registered again inside a history; creators that fail once under every schedule of 2-3 "
           "racing first calls.",
    "C10": " Added: searches that start behind a fixed two-step prefix (one stream-owning connection already gone for 10 s), clock steps of 25 s, and a client that gives all its requests "
           "one correlation id; the quick search is exhaustive to its depth (no state cap).",
    "C11": " Added letters: a member that re-binds an exposed name of the object to another exposed method, and a member returning sets and tuples.",
    "C13": " Added ending: a remote method that raises SystemExit (thread server).",
    "C15": " Added: after the concurrent operations every query is asked once more sequentially; the linearisation must explain those answers too (state left behind in caches).",
    "C16": " Added: every history is also replayed with each pool object returned from a remote method and asked for its uri/proxy after every step; registrations of an object that "
           "cannot carry attributes (__slots__) must fail without trace.",
    "C17": " Added: receive on a socket in blocking mode (gettimeout() None); recv_into served from the same scripts; a loop that keeps calling the socket (> 2000 calls) is a violation.",
    "C18": " Added: jobs that end their worker thread (SystemExit) - the slot must be free again and later jobs served - and Thread.start failing when the pool wants to grow "
           "(nothing may remain of the attempt).",
    "C20": " Added: a forwarded call whose reply is lost to a connection reset after the method ran: invoked once, error status, next request served.",
}
for _id, _more in _ADDED4.items():
    CHECKS[_id]["text"] += _more


# what the fifth strengthening round added
_ADDED5 = {
    "C01": " Round 5: half of the configurations run under TZ=XYZ-3:30 (the process time zone is an environment dimension); the serializer of a connected proxy is switched and compared with a fresh proxy.",
    "C02": " Round 5: the reserved dunder list is held against a frozen copy; a class exposed as a whole that defines 16 reserved names itself, every request kind.",
    "C03": " Round 5: calls whose only argument is a SerializedBlob (normal and oneway).",
    "C04": " Round 5: alias spellings of the builtins namespace; application subclasses of URI/Proxy/Daemon loaded in the process.",
    "C05": " Round 5: compressed messages whose payload is a valid prefix of a deflate stream (cut / empty); every stream once more with debug logging on (log arguments really formatted).",
    "C07": " Round 5: content whose serialisation fails with errors of seven further classes, a half-built __slots__ object.",
    "C08": " Round 5: CONNECT for a weakly registered object that has died while its registry entry is still there.",
    "C09": " Round 5: creator with a permissive signature raising TypeError once; connections that outlive Daemon.close() keep the daemon's single instance.",
    "C10": " Round 5: the other connection fetches from a stream it does not own.",
    "C11": " Round 5: a failing member whose exception class has application-registered converters; a member returning an exception object as a value.",
    "C12": " Round 5: a daemon whose annotations() returns one persistent dict; requests without annotations, one of which marks its own request annotations in place.",
    "C13": " Round 5: forty tracked resources dropped without untracking and forty new ones tracked (address reuse after collection).",
    "C15": " Round 5: a query in progress while two writers arrive (3 threads, 2 preemptions); the name server's real AutoCleaner makes one pass as a concurrent actor.",
    "C17": " Round 5: bursts of 8-64 consecutive retryable errors before / between fragments and partial writes.",
    "C18": " Round 5: pool scripts under debug logging (a handler that formats every record while the pool's locks are held).",
    "C19": " Round 5: a PYRONAME / PYROMETA proxy that travels, is bound through a real name server, is released, and travels again (4 serializers + copy).",
    "C20": " Round 5: ';' and '%3B' in query strings.",
}
for _id, _more in _ADDED5.items():
    CHECKS[_id]["text"] += _more


# what the sixth strengthening round added
_ADDED6 = {
    "C01": " Round 6: string keys that look like numbers; the images of the extended atoms are held against a golden table taken from the pinned tree.",
    "C02": " Round 6: a refusal must be an error reply (a connection dropped without one is reported).",
    "C04": " Round 6: converters registered under bare tags vs hostile tags ending in them; foreign tags wrapped in an _ExceptionWrapper must raise.",
    "C05": " Round 6: accept() failing with EMFILE 3 / 8 / 20 times in a row while connections are pending.",
    "C08": " Round 6: a wrong-type first message whose announced payload never arrives in full.",
    "C09": " Round 6: schedules with COMMTIMEOUT set (bounded lock waits may run out).",
    "C11": " Round 6: the effect of a normal batch must be there when the batch call returns.",
    "C12": " Round 6: oneway batches (context of the members, executed before the client's next call); two workers inside Daemon.handleRequest with every source line a scheduling point.",
    "C13": " Round 6: first use of a session class through a oneway call; hook assigned on the daemon instance; a tracked resource whose close() raises.",
    "C14": " Round 6: tags containing '|' and ','.",
    "C15": " Round 6: configurations with COMMTIMEOUT set.",
    "C16": " Round 6: long-lived client connections that call again after every history step; falsy pool objects.",
    "C17": " Round 6: sends of 60001 / 120001 bytes in timeout mode.",
    "C18": " Round 6: a job still running when the pool is closed that then ends its worker thread.",
    "C19": " Round 6: ports 0 / 000 / +0, upper-case hex digits in ipv6 hosts.",
    "C20": " Round 6: percent signs left in object and member names after the WSGI server's decoding.",
}
for _id, _more in _ADDED6.items():
    CHECKS[_id]["text"] += _more
