"""Server-side target classes for the end-to-end harnesses (a normally named module, so that class tags are serialisable)."""
from Pyro5 import server, client, core
from Pyro5.callcontext import current_context


@server.expose
class Echo(object):
    def __init__(self):
        self.seen = []
        self.notes = []
        self.next_result = None
        self.next_items = []

    def echo(self, *args, **kwargs):
        self.seen.append((args, kwargs))
        if args:
            return args[0]
        if kwargs:
            return kwargs[sorted(kwargs)[0]]
        return None

    def give(self):
        return self.next_result

    def stream(self):
        for it in self.next_items:
            yield it

    def stream3(self):
        yield 1
        yield 2
        yield 3

    @server.oneway
    def oneway_note(self, x):
        self.notes.append(x)

    @property
    def attr(self):
        return self.next_result

    @attr.setter
    def attr(self, v):
        self.seen.append((("attr", v), {}))


class Accum(object):
    """stateful target for the batch check; only some members are exposed"""
    def __init__(self):
        self.total = 0
        self.items = []
        self.log = []

    @server.expose
    def add(self, x=1):
        self.log.append(("add", x))
        self.total += x
        return self.total

    @server.expose
    def append(self, item, twice=False):
        self.log.append(("append", item, twice))
        self.items.append(item)
        if twice:
            self.items.append(item)
        return len(self.items)

    @server.expose
    def get(self):
        self.log.append(("get",))
        return [self.total, list(self.items)]

    @server.expose
    def fail(self, kind="value"):
        self.log.append(("fail", kind))
        self.total += 100      # a side effect that must be kept (the call did run)
        if kind == "value":
            raise ValueError("boom", 42)
        if kind == "key":
            raise KeyError("nokey")
        if kind == "pyro-timeout":
            from Pyro5 import errors as _errors
            raise _errors.TimeoutError("nested call timed out")     # e.g. a proxy call made inside the method failed
        if kind == "bytes":
            raise ValueError(b"\x00raw bytes")         # content that json cannot carry
        if kind == "decimal":
            import decimal
            raise ValueError(decimal.Decimal("1.5"))   # content that marshal cannot carry
        if kind == "registered":
            raise RegisteredError("quota", 3)          # travels in the format the application registered for it
        raise ZeroDivisionError("division by zero")

    @server.expose
    def nothing(self):
        self.log.append(("nothing",))

    @server.expose
    def tags(self):
        self.log.append(("tags",))
        return [{"t%d" % self.total, "u"}, (self.total, -1)]     # containers that some serializers map to others

    @server.expose
    def report(self):
        """returns an exception object as an ordinary value (a validation result): nothing failed"""
        self.log.append(("report",))
        return ValueError("reported, not raised", self.total)

    @server.expose
    def seal(self):
        """from now on the name 'add' resolves to another (exposed) method of this object"""
        self.log.append(("seal",))
        self.add = self.add_sealed

    @server.expose
    def add_sealed(self, x=1):
        self.log.append(("add_sealed", x))
        raise PermissionError("sealed")

    def unexposed(self):
        self.log.append(("unexposed",))
        self.total += 1000
        return "leak"

    def _private(self):
        self.log.append(("_private",))
        self.total += 1000
        return "leak"


class CustomError(Exception):
    """an exception class the receiving side does not know (not a builtin, not a Pyro5 error)"""


# application subclasses of Pyro's own serialisable classes, loaded in the receiving process (custom handshake validation and the
# like): still application classes - a peer must not be able to have them built by naming them
class AppProxy(client.Proxy):
    def __setstate__(self, state):
        Canary.log.append(("AppProxy.__setstate__",))
        client.Proxy.__setstate__(self, state)


class AppURI(core.URI):
    def __setstate__(self, state):
        Canary.log.append(("AppURI.__setstate__",))
        core.URI.__setstate__(self, state)


class AppDaemon(server.Daemon):
    def __setstate__(self, state):
        Canary.log.append(("AppDaemon.__setstate__",))


class RegisteredError(Exception):
    """an application exception that travels through converters the application registered itself (see register_converters)"""


def register_converters(on):
    from Pyro5.serializers import SerializerBase
    if on:
        SerializerBase.register_class_to_dict(RegisteredError, lambda x: {"__class__": "vf-registered-error", "what": list(x.args)})
        SerializerBase.register_dict_to_class("vf-registered-error", lambda name, d: RegisteredError(*d["what"]))
    else:
        SerializerBase.unregister_class_to_dict(RegisteredError)
        SerializerBase.unregister_dict_to_class("vf-registered-error")


class Unserialisable(object):
    __slots__ = ()

    def __getstate__(self):
        raise TypeError("this object refuses to be serialised")


def unserialisable_with(exc_class):
    """an object whose serialisation fails with an error of the given class (serialisation code is user code: it can fail any way)"""
    class Refusing(object):
        __slots__ = ()

        def __getstate__(self):
            raise exc_class("this object's serialisation fails its own way")
    return Refusing()


class HalfBuilt(object):
    """a __slots__ object with an unassigned slot: reading its state raises AttributeError"""
    __slots__ = ("a", "b")

    def __init__(self):
        self.a = 1


@server.expose
class Raiser(object):
    """raises exceptions described by a server-side table (the exception is built on the server)"""
    table = {}

    def __init__(self):
        self.calls = []

    def _make(self, key):
        cls, args, attrs = Raiser.table[key]
        x = cls(*args)
        for k, v in attrs.items():
            setattr(x, k, v)
        return x

    def raise_it(self, key):
        self.calls.append(("raise_it", key))
        raise self._make(key)

    @property
    def prop(self):
        self.calls.append(("prop", Raiser.current))
        raise self._make(Raiser.current)

    def stream(self, key, index):
        self.calls.append(("stream", key))
        for i in range(index):
            yield i
        raise self._make(key)

    def token(self, t):
        self.calls.append(("token", t))
        return t


class Canary(object):
    """a harness-local class: must never be instantiated by deserialisation"""
    log = []

    def __init__(self, *args, **kwargs):
        Canary.log.append(("init", args, kwargs))

    def __setstate__(self, state):
        Canary.log.append(("setstate", state))


@server.expose
class RegT(object):
    """instances o1/o2 of the registry check"""
    def __init__(self, label):
        self.label = label
        self.calls = 0

    def who(self):
        self.calls += 1
        return self.label


@server.expose
class RegSlots(object):
    """an exposed object that cannot take new attributes (and cannot be weakly referenced): registering it fails half way"""
    __slots__ = ("label",)

    def __init__(self, label):
        self.label = label

    def who(self):
        return self.label


@server.expose
@server.behavior(instance_mode="single")
class RegK(object):
    def who(self):
        return "K"


@server.expose
class RegHost(object):
    """returns pool objects from a remote method (auto-proxy leg)"""
    pool = {}

    def give(self, label):
        return RegHost.pool[label]


@server.expose
class Streamer(object):
    """returns iterators/generators described by a kind string; counts what was pulled from each"""
    def __init__(self):
        self.pulled = {}

    def stream(self, kind, tag):
        self.pulled[tag] = 0
        if kind == "empty":
            return self._gen(tag, [])
        if kind == "three":
            return self._gen(tag, ["%s-0" % tag, "%s-1" % tag, "%s-2" % tag])
        if kind == "raises1":
            return self._gen(tag, ["%s-0" % tag, ValueError("gen-failure-%s" % tag), "%s-2" % tag])
        if kind == "plainiter":
            return iter(["%s-0" % tag, "%s-1" % tag])
        raise ValueError(kind)

    def _gen(self, tag, items):
        for it in items:
            self.pulled[tag] += 1
            if isinstance(it, Exception):
                raise it
            yield it

    def ping(self):
        return "pong"


class GwTarget(object):
    """object behind the HTTP gateway; logs every invocation"""
    def __init__(self, label):
        self.label = label
        self.log = []

    @server.expose
    def m(self, **kwargs):
        self.log.append(("m", dict(kwargs)))
        return [self.label, sorted(kwargs.items())]

    @server.expose
    def fail(self, **kwargs):
        self.log.append(("fail", dict(kwargs)))
        raise ValueError("gw-failure")

    @server.expose
    @server.oneway
    def ow(self, **kwargs):
        self.log.append(("ow", dict(kwargs)))

    @server.expose
    def drop(self, **kwargs):
        """runs, and then the connection it was called on is reset before the reply can be written (a network fault after delivery)"""
        self.log.append(("drop", dict(kwargs)))
        current_context.client.sock.do_reset()
        return "never-arrives"

    @server.expose
    @property
    def attr(self):
        self.log.append(("attr", {}))
        return "attr-of-" + self.label

    def secret(self, **kwargs):
        self.log.append(("secret", dict(kwargs)))
        return "leak"

    def _private(self, **kwargs):
        self.log.append(("_private", dict(kwargs)))
        return "leak"


@server.expose
class TokenTarget(object):
    """counts executions per unique token"""
    def __init__(self):
        self.executed = {}

    def _count(self, token):
        self.executed[token] = self.executed.get(token, 0) + 1

    def echo(self, token):
        self._count(token)
        return token

    def raiser(self, token):
        self._count(token)
        raise ValueError(token)

    @server.oneway
    def ow(self, token):
        self._count(token)

    @server.oneway
    def ow_blob(self, blob):
        self._count(blob.info)          # the argument stays serialized (client.SerializedBlob)

    def echo_blob(self, blob):
        self._count(blob.info)
        return blob.info

    @property
    def attr(self):
        self._count("attr")
        return "attr-value"

    def stream(self, token):
        self._count(token)
        return iter([token + "-0", token + "-1"])


@server.expose
class LogTarget(object):
    """logs every invocation (handshake / hostile-input checks)"""
    def __init__(self):
        self.log = []

    def hit(self, tag="x"):
        self.log.append(("hit", tag))
        return "hit-" + str(tag)

    @server.oneway
    def hit_oneway(self, tag="x"):
        self.log.append(("hit_oneway", tag))

    def token(self, t):
        self.log.append(("token", t))
        return t

    gate = None      # set by a harness: an event the blocked() method waits for

    def blocked(self, t):
        """stays inside the method (keeping its worker occupied) until the harness opens the gate"""
        self.log.append(("blocked", t))
        if LogTarget.gate is not None:
            LogTarget.gate.wait()
        return t

    def boom(self, kind):
        self.log.append(("boom", kind))
        if kind == "unserialisable":
            class Weird(Exception):
                def __init__(self):
                    Exception.__init__(self, "weird")
                    import threading
                    self.lock = threading.Lock()
            raise Weird()
        if kind == "surrogate":
            raise FileNotFoundError(2, "caf\udce9.txt")       # text that json / msgpack cannot encode (os.fsdecode of a non-utf-8 file name)
        if kind == "custom":
            raise CustomError("custom failure", 7)
        if kind in ("nasty", "nasty-plain", "str-nonstring", "repr-raises"):
            import threading

            class Nasty(Exception):
                """an Exception subclass that cannot even be printed"""
                def __init__(self, *a):
                    Exception.__init__(self, *a)
                    if kind != "nasty-plain":
                        self.lock = threading.Lock()       # ... nor serialised

                def __str__(self):
                    if kind == "str-nonstring":
                        return 5
                    if kind == "repr-raises":
                        return "printable"
                    raise Nasty("str of nasty")

                def __repr__(self):
                    if kind == "repr-raises":
                        raise Nasty("repr of nasty")
                    return "Nasty()"
            raise Nasty("nasty")
        raise ValueError("plain failure")

    @server.callback
    def boom_callback(self, kind):
        """exceptions of callback methods are re-raised inside the daemon by design"""
        return self.boom(kind)


class Resource(object):
    """a closable resource for the connection clean-up check"""
    def __init__(self, name):
        self.name = name
        self.closed = 0

    def close(self):
        self.closed += 1


class RaisingResource(Resource):
    def close(self):
        self.closed += 1
        raise RuntimeError("close() of %s fails" % self.name)


@server.expose
@server.behavior(instance_mode="session")
class ResTarget(object):
    registry = None        # set by the harness: dict with 'instances' (weakrefs), 'resources' (strong refs by connection key)

    def __init__(self):
        import weakref
        ResTarget.registry["instances"].append(weakref.ref(self))
        self.mine = []
        harness_yield("constructor")      # (a constructor takes time: other threads may run meanwhile)

    def track(self, label, n):
        out = []
        for i in range(n):
            r = Resource("%s-%d" % (label, i))
            ResTarget.registry["resources"].append((label, r, "tracked"))
            current_context.track_resource(r)
            self.mine.append(r)
            out.append(r.name)
        return out

    def untrack_last(self, label):
        if not self.mine:
            return None
        r = self.mine.pop()
        current_context.untrack_resource(r)
        for i, (lab, res, st) in enumerate(ResTarget.registry["resources"]):
            if res is r:
                ResTarget.registry["resources"][i] = (lab, res, "untracked")
        return r.name

    @server.oneway
    def ow_touch(self, label):
        return None

    def track_raising(self, label):
        """tracks a resource whose close() fails after having done its work"""
        r = RaisingResource(label + "-raising")
        ResTarget.registry["resources"].append((label, r, "tracked"))
        current_context.track_resource(r)
        self.mine.append(r)
        return r.name

    def churn(self, label):
        """tracks a short-lived resource that is dropped without being untracked (and collected at once), then a new one - which
        CPython's allocator readily places at an address one of the dropped ones had. The new ones are tracked resources like any other."""
        temps = [Resource("%s-tmp%d" % (label, i)) for i in range(40)]
        for t in temps:
            current_context.track_resource(t)
        old = {id(t) for t in temps}
        del t, temps
        again = [Resource("%s-again%d" % (label, i)) for i in range(40)]
        for r in again:
            ResTarget.registry["resources"].append((label, r, "tracked"))
            current_context.track_resource(r)
            self.mine.append(r)
        return len(old & {id(r) for r in again})

    def sec(self):
        from Pyro5 import errors
        raise errors.SecurityError("not allowed")

    def ping(self, t):
        return t

    def quit(self):
        raise SystemExit(0)      # e.g. application code calling sys.exit() inside a remote method

    def gen(self, n):
        return _free_gen(n)      # (a generator that does not keep the session instance alive while the stream lingers)


def _free_gen(n):
    for i in range(n):
        yield i


@server.expose
@server.behavior(instance_mode="session")
class ResTargetInit(ResTarget):
    """tracks a resource already in its constructor (the instance is created while the first request is being dispatched)"""
    def __init__(self):
        ResTarget.__init__(self)
        r = Resource("init")
        ResTarget.registry["resources"].append((ResTarget.registry.get("current_label", "?"), r, "tracked"))
        current_context.track_resource(r)
        self.mine.append(r)

    def track(self, label, n):
        return ResTarget.track(self, label, n)

    def untrack_last(self, label):
        return ResTarget.untrack_last(self, label)

    def sec(self):
        return ResTarget.sec(self)

    def ping(self, t):
        return t


def harness_yield(kind="method-body"):
    """a scheduling point inside a remote method body (lets the explorer interleave concurrent calls)"""
    from vf import sched as _S
    s = _S.Scheduler.current
    if s is not None and not s.aborting and s.me() is not None:
        s.point(kind)


@server.expose
class CtxTarget(object):
    """records the call context every method sees; sets response annotations tagged with the request's own id"""
    def __init__(self):
        self.seen = []

    def _record(self, kind, tag):
        c = current_context
        ann = {k: bytes(v) for k, v in (c.annotations or {}).items()}
        peer = None
        try:
            peer = c.client.sock.getpeername() if c.client is not None else None
        except Exception:
            peer = "closed"
        self.seen.append({"kind": kind, "tag": tag, "reqi": ann.get("REQI"), "annkeys": sorted(ann), "seq": c.seq, "flags": c.msg_flags, "ser": c.serializer_id,
                          "corr": str(c.correlation_id), "peer": peer, "addr": c.client_sock_addr})

    def ret_assign(self, tag):
        self._record("ret_assign", tag)
        harness_yield()
        current_context.response_annotations = {"RSPA": tag.encode()}
        harness_yield()
        self._record("ret_assign-late", tag)
        return tag

    def ret_update(self, tag):
        self._record("ret_update", tag)
        current_context.response_annotations["RSPU"] = tag.encode()
        harness_yield()
        return tag

    def raise_after_set(self, tag):
        self._record("raise_after_set", tag)
        current_context.response_annotations["RSPX"] = tag.encode()
        harness_yield()
        raise ValueError(tag)

    @server.oneway
    def ow_set(self, tag):
        self._record("ow_set", tag)
        harness_yield("oneway-body")
        current_context.response_annotations["RSPO"] = tag.encode()
        harness_yield("oneway-body")
        self._record("ow_set-late", tag)

    def plain(self, tag):
        self._record("plain", tag)
        return tag

    def tag_request(self, tag):
        """marks its own request's annotations in place (they are this request's, nobody else may ever see the mark)"""
        self._record("tag_request", tag)
        current_context.annotations["TAGD"] = tag.encode()
        return tag
