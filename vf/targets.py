"""Server-side target classes for the end-to-end harnesses (a normally named module, so that class tags are serialisable)."""
from Pyro5 import server
from Pyro5.callcontext import current_context


@server.expose
class Echo(object):
    def __init__(self):
        self.seen = []
        self.notes = []
        self.next_result = None
        self.next_items = []

    def echo(self, *args, **kwargs):
        self.seen.append((args, kwargs))
        if args:
            return args[0]
        if kwargs:
            return kwargs[sorted(kwargs)[0]]
        return None

    def give(self):
        return self.next_result

    def stream(self):
        for it in self.next_items:
            yield it

    def stream3(self):
        yield 1
        yield 2
        yield 3

    @server.oneway
    def oneway_note(self, x):
        self.notes.append(x)

    @property
    def attr(self):
        return self.next_result

    @attr.setter
    def attr(self, v):
        self.seen.append((("attr", v), {}))
