"""Server-side target classes for the end-to-end harnesses (a normally named module, so that class tags are serialisable)."""
from Pyro5 import server
from Pyro5.callcontext import current_context


@server.expose
class Echo(object):
    def __init__(self):
        self.seen = []
        self.notes = []
        self.next_result = None
        self.next_items = []

    def echo(self, *args, **kwargs):
        self.seen.append((args, kwargs))
        if args:
            return args[0]
        if kwargs:
            return kwargs[sorted(kwargs)[0]]
        return None

    def give(self):
        return self.next_result

    def stream(self):
        for it in self.next_items:
            yield it

    def stream3(self):
        yield 1
        yield 2
        yield 3

    @server.oneway
    def oneway_note(self, x):
        self.notes.append(x)

    @property
    def attr(self):
        return self.next_result

    @attr.setter
    def attr(self, v):
        self.seen.append((("attr", v), {}))


class Accum(object):
    """stateful target for the batch check; only some members are exposed"""
    def __init__(self):
        self.total = 0
        self.items = []
        self.log = []

    @server.expose
    def add(self, x=1):
        self.log.append(("add", x))
        self.total += x
        return self.total

    @server.expose
    def append(self, item, twice=False):
        self.log.append(("append", item, twice))
        self.items.append(item)
        if twice:
            self.items.append(item)
        return len(self.items)

    @server.expose
    def get(self):
        self.log.append(("get",))
        return [self.total, list(self.items)]

    @server.expose
    def fail(self, kind="value"):
        self.log.append(("fail", kind))
        self.total += 100      # a side effect that must be kept (the call did run)
        if kind == "value":
            raise ValueError("boom", 42)
        if kind == "key":
            raise KeyError("nokey")
        raise ZeroDivisionError("division by zero")

    @server.expose
    def nothing(self):
        self.log.append(("nothing",))

    def unexposed(self):
        self.log.append(("unexposed",))
        self.total += 1000
        return "leak"

    def _private(self):
        self.log.append(("_private",))
        self.total += 1000
        return "leak"
