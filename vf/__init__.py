"""Bounded exhaustive exploration machinery for irmen/Pyro5 (see /verif/DESIGN.md)."""
