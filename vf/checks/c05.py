"""
C05 - no client input can stop the daemon or disturb other clients.
Engine N+T whole system: an attacker sends structure-aware mutations of valid handshake / invoke messages (before or after a valid
handshake, ended by an orderly or abortive disconnect) interleaved with a witness client's calls; both server types, with and
without COMMTIMEOUT, roomy and exhausted thread pool. Oracle: witness tokens, fresh client, loop alive, pool / selector accounting.
"""
import itertools

from vf.explore import Stats, HarnessError, Chooser
from vf.common import coverage_from_stats, explore_parallel, run_unit
from vf.values import show

PID = "C05"
FIELDS = {"tag": (0, 4), "ver": (4, 2), "type": (6, 1), "ser": (7, 1), "flags": (8, 2), "seq": (10, 2), "dlen": (12, 4), "alen": (16, 4), "corr": (20, 16), "rsv": (36, 2), "magic": (38, 2)}
TRUNC = [0, 3, 4, 6, 7, 8, 10, 12, 16, 20, 36, 38, 39, 40, 41, -1]


def base_messages():
    from Pyro5 import protocol, serializers
    ser = serializers.serializers["serpent"]
    connect = bytes(protocol.SendingMessage(protocol.MSG_CONNECT, 0, 1, ser.serializer_id, ser.dumps({"handshake": "hello", "object": "obj"})).data)
    invoke = bytes(protocol.SendingMessage(protocol.MSG_INVOKE, 0, 2, ser.serializer_id, ser.dumpsCall("obj", "token", ("attack",), {})).data)
    return connect, invoke


def attack_streams(quick):
    """(label, base ('C'|'I'), bytes)"""
    from Pyro5 import protocol, serializers
    ser = serializers.serializers["serpent"]
    C, I = base_messages()
    out = []
    for bname, base in (("C", C), ("I", I)):
        for f, (off, size) in FIELDS.items():
            cur = int.from_bytes(base[off:off + size], "big")
            mx = (1 << (8 * size)) - 1
            vals = [0, mx, (cur + 1) & mx, (cur - 1) & mx]
            if quick:
                vals = [0, mx, (cur + 1) & mx] if f in ("dlen", "alen", "type", "ser") else [mx]
            for v in vals:
                if v != cur:
                    out.append(("%s.%s=%d" % (bname, f, v), bname, base[:off] + v.to_bytes(size, "big") + base[off + size:]))
        dlen = int.from_bytes(base[12:16], "big")
        for lab, v in (("dlen*2", dlen * 2), ("dlen/2", dlen // 2), ("dlen=2^31", 1 << 31)):
            out.append(("%s.%s" % (bname, lab), bname, base[:12] + v.to_bytes(4, "big") + base[16:]))
        out.append(("%s.alen=5" % bname, bname, base[:16] + (5).to_bytes(4, "big") + base[20:]))
        out.append(("%s.alen=8+chunk-overrun" % bname, bname, base[:16] + (8).to_bytes(4, "big") + base[20:40] + b"ABCD\x00\x00\xff\xff" + base[40:]))
        for t in (TRUNC if quick else sorted(set(TRUNC) | set(range(0, len(base))))):      # thorough: every prefix
            cut = base[:t] if t >= 0 else base[:-1]
            out.append(("%s.trunc@%d" % (bname, t), bname, cut))
        out.append(("%s.payload-garbage" % bname, bname, base[:40] + bytes((b * 7 + 1) % 256 for b in range(len(base) - 40))))
        out.append(("%s.compressed-flag-on-plain" % bname, bname, base[:8] + (2).to_bytes(2, "big") + base[10:]))
        out.append(("%s.twice" % bname, bname, base + base))
        # compressed flag set and a payload that is a *valid prefix* of a deflate stream (cut inside / empty), length fields consistent
        import zlib
        body = base[40:]
        z = zlib.compress(body + body)
        for zl, zb in (("zlib-cut-5", z[:-5]), ("zlib-cut-half", z[:len(z) // 2]), ("zlib-header-only", z[:2]), ("zlib-empty", b"")):
            out.append(("%s.%s" % (bname, zl), bname, base[:8] + (2).to_bytes(2, "big") + base[10:12] + len(zb).to_bytes(4, "big") + (0).to_bytes(4, "big") + base[20:40] + zb))

    def inv(obj, meth, args=(), kw=None, flags=0):
        return bytes(protocol.SendingMessage(protocol.MSG_INVOKE, flags, 3, ser.serializer_id, ser.dumpsCall(obj, meth, args, kw or {})).data)
    sem = [("I.unknown-object", inv("nope", "token", ("x",))), ("I.unknown-member", inv("obj", "nope")), ("I.private-member", inv("obj", "_secret")),
           ("I.dunder-member", inv("obj", "__class__")), ("I.raises-unserialisable", inv("obj", "boom", ("unserialisable",))), ("I.raises-custom", inv("obj", "boom", ("custom",))),
           ("I.raises-nasty", inv("obj", "boom", ("nasty",))), ("I.raises-nasty-plain", inv("obj", "boom", ("nasty-plain",))), ("I.raises-str-nonstring", inv("obj", "boom", ("str-nonstring",))),
           ("I.raises-repr-raises", inv("obj", "boom", ("repr-raises",))), ("I.callback-raises-nasty", inv("obj", "boom_callback", ("nasty",))), ("I.callback-raises-plain", inv("obj", "boom_callback", ("plain",))),
           ("I.callback-raises-str-nonstring", inv("obj", "boom_callback", ("str-nonstring",))), ("I.oneway-raises-nasty", inv("obj", "boom", ("nasty",), flags=protocol.FLAGS_ONEWAY)),
           ("I.batch-raises-nasty", inv("obj", "<batch>", [("boom", ("nasty",), {})], flags=protocol.FLAGS_BATCH)),
           ("I.raises-plain", inv("obj", "boom", ("plain",))), ("I.wrong-args", inv("obj", "token", (1, 2, 3))), ("I.oneway-raises", inv("obj", "boom", ("unserialisable",), flags=protocol.FLAGS_ONEWAY)),
           ("I.batch-garbage", inv("obj", "<batch>", ("not-a-list-of-calls",), flags=protocol.FLAGS_BATCH)), ("I.getattr-unknown", inv("obj", "__getattr__", ("nope",))),
           ("I.setattr-unknown", inv("obj", "__setattr__", ("nope", 1))), ("I.keepserialized-without-blob", inv("obj", "token", ("x",), flags=protocol.FLAGS_KEEPSERIALIZED)),
           ("I.method-name-int", inv("obj", 5)), ("I.kwargs-none", bytes(protocol.SendingMessage(protocol.MSG_INVOKE, 0, 3, ser.serializer_id, ser.dumpsCall("obj", "token", ("x",), None)).data)),
           ("I.args-not-a-sequence", bytes(protocol.SendingMessage(protocol.MSG_INVOKE, 0, 3, ser.serializer_id, ser.dumps(("obj", "token", 5, {}))).data)),
           ("I.payload-not-a-call", bytes(protocol.SendingMessage(protocol.MSG_INVOKE, 0, 3, ser.serializer_id, ser.dumps("just text")).data)),
           ("I.class-tag-os-system", bytes(protocol.SendingMessage(protocol.MSG_INVOKE, 0, 3, ser.serializer_id, ser.dumps(("obj", "token", ({"__class__": "os.system", "args": ["x"]},), {}))).data))]
    for lab, b in sem:
        out.append((lab, "I", b))
    out.append(("garbage.interrupt", "G", b"!" * 16))
    out.append(("garbage.http", "G", b"GET / HTTP/1.1\r\nHost: x\r\n\r\n"))
    out.append(("garbage.zeros", "G", b"\0" * 64))
    out.append(("garbage.PYRO-only", "G", b"PYRO"))
    return out


def make_run(cfg):
    from vf import sched as S
    from vf.schedworld import SchedWorld
    from vf import targets
    from Pyro5 import client, errors, protocol, socketutil, svr_threads
    streams = dict((lab, b) for lab, _, b in attack_streams(False))
    attack = streams[cfg["stream"]]
    C, I = base_messages()

    def run_fn(chooser):
        if cfg.get("logging"):
            from vf.common import FormattingLogSink
            with FormattingLogSink():
                return run_fn_inner(chooser)
        return run_fn_inner(chooser)

    def run_fn_inner(chooser):
        pool_small = cfg["pool"] == "full"
        watch = None
        if cfg.get("watch") == "pool":
            # line granularity inside the worker loop and the pool hand-off, on top of the message-level points
            watch = S.watch_functions(svr_threads.Worker.run, svr_threads.Worker.process, svr_threads.Pool.process, svr_threads.Pool.notify_done)
        w = SchedWorld(chooser, servertype=cfg["server"], allow_ticks=False, max_idle_wakes=30, watch=watch, COMMTIMEOUT=cfg["timeout"],
                       THREADPOOL_SIZE=(1 if pool_small else 4), THREADPOOL_SIZE_MIN=1)
        violations = []
        try:
            d = w.daemon()
            tgt = targets.LogTarget()
            d.register(tgt, "obj")
            w.serve(d)
            w.net.accept_faults = int(cfg.get("accept_faults", 0))
            got = {"witness": [], "fresh": None, "attacker": None}
            witness_in = S.CoopEvent()
            attacker_done = S.CoopEvent()
            witness_done = S.CoopEvent()
            stall_over = S.CoopEvent()

            def witness():
                try:
                    if cfg.get("order") == "attacker-first":
                        attacker_done.wait()      # the well-behaved client arrives just as the hostile connection is being cleaned up
                    p = client.Proxy("PYRO:obj@h:1")
                    if cfg.get("witness_odd_call"):
                        p._pyroSerializer = cfg["witness_odd_call"]
                    p._pyroBind()
                    got["witness"].append(("ok", p.token("w1")))
                    witness_in.flag = True
                    if pool_small:
                        attacker_done.wait()      # keep the only worker occupied while the attacker is refused
                    if cfg.get("witness_reconnects"):
                        p._pyroRelease()          # every call of the well-behaved client on a new connection: its handshakes mix with the hostile traffic
                    if cfg.get("witness_odd_call"):
                        # the well-behaved client itself makes a call whose exception no reply can carry in its serializer: it gets *some*
                        # error (never silence), and its next calls are served
                        try:
                            p.boom("surrogate")
                            got["witness"].append(("exc", "boom returned"))
                        except Exception as x:
                            got["odd"] = type(x).__name__
                    got["witness"].append(("ok", p.token("w2")))
                    if cfg.get("witness_reconnects"):
                        p._pyroRelease()
                    got["witness"].append(("ok", p.token("w3")))
                    p._pyroRelease()
                except S.AbortExecution:
                    raise
                except Exception as x:
                    got["witness"].append(("exc", x))
                finally:
                    witness_done.flag = True

            def attacker():
                try:
                    if pool_small:
                        witness_in.wait()
                    sock = w.net.create_socket(connect=("h", 1))
                    sock.settimeout(4.0)
                    conn = socketutil.SocketConnection(sock)
                    if cfg["phase"] == "after-handshake":
                        sock.sendall(C)
                        try:
                            protocol.recv_stub(conn)
                        except Exception as x:
                            got["attacker"] = "handshake:" + type(x).__name__
                    try:
                        if attack:
                            sock.sendall(attack)
                    except OSError:
                        pass
                    if cfg["ending"] == "read-then-close":
                        try:
                            protocol.recv_stub(conn)
                        except Exception:
                            pass
                    if cfg["ending"] == "stall":
                        # stays connected and silent until everybody else has been served
                        stall_over.wait()
                    if cfg["ending"] == "reset":
                        sock.do_reset()
                    conn.keep_open = False
                    conn.close()
                except S.AbortExecution:
                    raise
                except Exception as x:
                    got["attacker"] = "error:" + repr(x)
                finally:
                    attacker_done.flag = True

            def fresh():
                if cfg["ending"] != "stall":
                    attacker_done.wait()
                witness_done.wait()
                try:
                    if cfg["server"] == "thread":
                        pool = d.transportServer.pool
                        # the new client arrives once the earlier connections have been cleaned up (otherwise a refusal would be legitimate)
                        if cfg["ending"] != "stall":
                            w.sch.block(lambda: len(pool.busy) == 0, what="pool drained")
                    with client.Proxy("PYRO:obj@h:1") as p:
                        p._pyroBind()
                        protocol.SendingMessage.ping(p._pyroConnection)
                        got["fresh"] = ("ok", p.token("fresh"))
                except S.AbortExecution:
                    raise
                except Exception as x:
                    got["fresh"] = ("exc", x)
                finally:
                    stall_over.flag = True
            w.client(witness, "witness")
            w.client(attacker, "attacker")
            w.client(fresh, "fresh")
            w.sch.hang_timeout = 20.0
            outcome = w.run()

            def V(fp, what):
                violations.append({"fingerprint": "C05|" + fp, "what": "%s [cfg=%s]" % (what, cfg), "replay": {"cfg": cfg}})
            cls = cfg["stream"].split("=")[0].split("@")[0]
            if w.loop_errors:
                x = w.loop_errors[0][1]
                V("request-loop-stopped|%s|%s" % (cfg["server"], type(x).__name__ if not isinstance(x, str) else x), "requestLoop ended: %r" % (w.loop_errors,))
            fatal = False
            if outcome == "hang":
                t = w.sch.hung_thread
                fatal = True
                V("thread-spins-without-progress|%s|%s" % (cfg["server"], "worker" if t is not None and t.name.startswith("Pyro-Worker") else (t.name if t is not None else "?")),
                  "thread %r ran for %ds without reaching a scheduling point: %s" % (t, int(w.sch.hang_timeout), getattr(w.sch, "hang_stack", "")[-400:]))
            elif outcome == "deadlock":
                stuck = [t for t in w.sch.threads if t.role == "driver" and t.status != S.DONE]
                V("client-starved-or-deadlock|%s|%s" % (cfg["server"], "+".join(sorted(t.name for t in stuck))), "threads %r" % w.sch.threads)
            elif outcome == "horizon":
                # no execution of the unchanged daemon comes near the step bound: a thread keeps passing scheduling points (socket calls)
                # without ever coming to rest - livelock
                fatal = True
                busy = w.sch.cur
                V("thread-spins-without-progress|%s|%s|livelock" % (cfg["server"], "worker" if busy is not None and busy.name.startswith("Pyro-Worker") else (busy.name if busy is not None else "?")),
                  "the execution did not come to rest within %d scheduling steps; running thread %r" % (w.sch.n_points, busy))
            elif outcome != "quiescent":
                raise HarnessError("C05 ended with %s" % outcome)
            for name, x in w.sch.errors:
                if not name.startswith("oneway"):
                    V("uncaught-in-thread|%s|%s" % ("worker" if name.startswith("Pyro-Worker") else name.split("-")[0], type(x).__name__), "%r in %s" % (x, name))
            if outcome == "quiescent":
                if got["witness"] != [("ok", "w1"), ("ok", "w2"), ("ok", "w3")]:
                    V("witness-disturbed|%s" % cfg["server"], "the well-behaved client got %s" % show(got["witness"], 300))
                if got["fresh"] != ("ok", "fresh"):
                    V("daemon-does-not-accept-new-connections|%s" % cfg["server"], "fresh client got %s" % show(got["fresh"], 300))
                ts = d.transportServer
                if cfg["server"] == "thread":
                    pool = ts.pool
                    if pool.busy:
                        V("worker-stranded|busy", "busy=%r idle=%r" % (pool.busy, pool.idle))
                    for t in w.sch.threads:
                        if t.name.startswith("Pyro-Worker") and t.status != S.DONE:
                            wk = t.thread
                            if wk not in pool.idle:
                                V("worker-stranded|not-idle", "worker %s is parked (%s) but not in the idle set" % (t.name, t.blocked_on))
                    if len(pool.idle) + len(pool.busy) > (1 if pool_small else 4):
                        V("too-many-workers", "%d" % (len(pool.idle) + len(pool.busy)))
                else:
                    m = ts.selector.get_map()
                    if m is None or len(m) != 1:
                        V("selector-map-not-restored", "selector map %r" % (list(m.values()) if m else m,))
                if not w.loop_alive():
                    V("request-loop-stopped|%s|thread-ended" % cfg["server"], "loop thread is gone")
            obs = (cls, cfg["phase"], outcome, len(got["witness"]), got["fresh"][0] if got["fresh"] else None, len(tgt.log))
            return {"outcome": repr(obs), "violations": violations, "fatal": fatal, "sample": {"cfg": cfg, "witness": show(got["witness"], 100), "log": tgt.log[:5]}}
        finally:
            w.close()
    return run_fn


PIPE_K = (4, 16, 64)


def pipeline_step(kind, first):
    """Engine N, synchronous world, multiplex server driven through its real events(): a hostile connection has K complete, valid
    requests waiting in its socket buffer at the moment a well-behaved connection's single request is waiting too (one poll round
    reports both).  A stream of requests is input like any other: it must not postpone the other connection's reply for its whole
    length.  Judged over K = 4, 16, 64: an alarm only when for *every* K the well-behaved request is served after all K hostile
    ones (so a server that drains a bounded batch per connection is not reported)."""
    from vf.syncworld import SyncWorld
    from vf.memnet import raw_client
    from vf import targets
    from Pyro5 import protocol, serializers, socketutil
    ser = serializers.serializers["serpent"]
    C, _ = base_messages()

    def inv(meth, arg, seq, flags=0):
        return bytes(protocol.SendingMessage(protocol.MSG_INVOKE, flags, seq, ser.serializer_id, ser.dumpsCall("obj", meth, (arg,), {})).data)
    served_before = {}
    violations = []
    cfg = {"pipeline": kind, "first": first}

    def V(fp, what):
        violations.append({"fingerprint": "C05|" + fp, "what": "%s [cfg=%s]" % (what, cfg), "replay": {"cfg": cfg}, "choices": []})
    for K in PIPE_K:
        w = SyncWorld()
        try:
            d = w.daemon()
            tgt = targets.LogTarget()
            d.register(tgt, "obj")
            socks = {}
            for who in (("hostile", "witness") if first == "hostile" else ("witness", "hostile")):
                sock = raw_client(w.net, ("h", 1))
                sock.settimeout(4.0)
                conn = socketutil.SocketConnection(sock)
                sock.sendall(C)
                protocol.recv_stub(conn, [protocol.MSG_CONNECTOK])
                socks[who] = (sock, conn)
            w.net.pumping = True         # nothing is served while both connections fill their buffers
            try:
                stream = b"".join(inv("hit_oneway", "a%d" % i, 10 + i, protocol.FLAGS_ONEWAY) if kind == "oneway" else inv("token", "a%d" % i, 10 + i) for i in range(K))
                socks["hostile"][0].sendall(stream)
                socks["witness"][0].sendall(inv("token", "w", 5))
            finally:
                w.net.pumping = False
            w.net.pump()
            if w.net.pump_errors:
                V("request-loop-stopped|pipeline|%s" % type(w.net.pump_errors[0]).__name__, "%r" % (w.net.pump_errors,))
                break
            log = list(tgt.log)
            mine = ("token", "w")
            hostile_n = len([x for x in log if x != mine])
            if mine not in log or hostile_n != K:
                V("pipelined-requests-not-all-served|%s" % kind, "K=%d, invocation log %s" % (K, show(log, 200)))
                break
            reply = protocol.recv_stub(socks["witness"][1], [protocol.MSG_RESULT])
            val = ser.loads(reply.data)
            if val != "w" or reply.seq != 5:
                V("wrong-witness-reply|pipeline|%s" % kind, "K=%d: %r seq %d" % (K, val, reply.seq))
                break
            served_before[K] = log.index(mine)
        finally:
            w.close()
    if not violations and all(served_before.get(K) == K for K in PIPE_K):
        V("pipelined-stream-postpones-other-connection|multiplex|%s" % kind,
          "the well-behaved connection's request was waiting together with K pipelined requests of another connection and was served after "
          "all K of them, for every K in %r (hostile requests served first: %r)" % (PIPE_K, served_before))
    return {"outcome": repr((kind, first, tuple(sorted(served_before.items())))), "violations": violations}


def task(unit):
    return run_unit(make_run, unit)


def configs(quick):
    out = []
    streams = attack_streams(quick)
    for server, timeout, pool in (("multiplex", 0.0, "roomy"), ("multiplex", 3.0, "roomy"), ("thread", 0.0, "roomy"), ("thread", 3.0, "roomy"), ("thread", 0.0, "full")):
        for lab, base, _ in streams:
            for phase in ("first", "after-handshake"):
                if pool == "full" and phase == "after-handshake":
                    continue      # the attacker is refused: there is no 'after the handshake'
                if base == "C" and phase == "after-handshake" and quick and not lab.startswith(("C.type", "C.trunc@-1", "C.twice")):
                    continue
                stall_ok = (timeout > 0 or server == "thread") and pool != "full" and (lab.startswith(("C.trunc", "I.trunc", "garbage.PYRO-only")) or ".dlen*2" in lab)
                for ending in ("close", "reset", "read-then-close") + (("stall",) if stall_ok else ()):
                    if quick and ending == "read-then-close" and not lab.startswith("I."):
                        continue
                    if quick and timeout and not (lab.startswith(("I.raises", "C.trunc", "I.trunc", "garbage")) or ".dlen" in lab or ".alen" in lab):
                        continue
                    if ending == "stall" and base == "I" and phase == "first":
                        continue
                    if quick:
                        # every stream once under the default schedule; a representative subset under all one-preemption / one-reordering schedules
                        p, r = 0, 0
                        rep = lab in ("I.raises-unserialisable", "I.trunc@-1", "C.trunc@39", "garbage.interrupt")
                        if rep and ending != "read-then-close" and ((server == "multiplex" and not timeout and (phase == "first") == lab.startswith(("C.", "garbage")))
                                                                     or (pool == "full" and lab in ("C.trunc@39", "garbage.interrupt"))):
                            p, r = 1, 1
                    else:
                        # thorough: every stream under the default schedule; the semantically hostile invokes, the boundary truncations and
                        # the raw garbage under every one-preemption schedule; the representative subset with one (two) reorderings on top
                        p, r = 0, 0
                        natural_phase = (phase == "first") == lab.startswith(("C.", "garbage"))
                        medium = natural_phase and ending != "read-then-close" and (
                            (base == "I" and not any(x in lab for x in (".tag", ".ver", ".type", ".ser", ".flags", ".seq", ".dlen", ".alen", ".corr", ".rsv", ".magic", ".trunc", ".twice", ".payload", ".compressed")))
                            or (".trunc@" in lab and int(lab.split("@")[1]) in TRUNC) or lab.startswith("garbage") or ".dlen" in lab or ".alen" in lab)
                        if medium and (server == "multiplex" or pool == "full" or not timeout):
                            p, r = 1, 0      # every schedule with one preemption
                        rep = lab in ("I.raises-unserialisable", "I.raises-nasty", "I.trunc@-1", "C.trunc@39", "garbage.interrupt") and natural_phase and ending != "read-then-close"
                        if rep and ((server == "multiplex" and not timeout) or pool == "full"):
                            p, r = 1, 1      # ... and one free reordering on top for the representative streams
                            if lab in ("I.trunc@-1", "garbage.interrupt") and ending == "close" and server == "multiplex":
                                p, r = 1, 2
                    out.append({"server": server, "timeout": timeout, "pool": pool, "stream": lab, "phase": phase, "ending": ending, "p": p, "r": r, "horizon": 3000})
    return out


def run(ctx):
    cfgs = configs(ctx.quick)
    for lab, ending in (("garbage.interrupt", "close"), ("I.trunc@-1", "reset")) if ctx.quick else (("garbage.interrupt", "close"), ("I.trunc@-1", "reset"), ("I.raises-unserialisable", "close"), ("C.trunc@39", "reset")):
        cfgs.append({"server": "thread", "timeout": 0.0, "pool": "roomy", "stream": lab, "phase": "first" if not lab.startswith("I.") else "after-handshake", "ending": ending,
                     "order": "attacker-first", "watch": "pool", "p": 1, "r": 1, "horizon": 6000})
    # the well-behaved client reconnects for every call: accepting it can fall into the same poll round as the hostile bytes
    for server in ("multiplex", "thread"):
        for lab, phase, ending in (("garbage.interrupt", "after-handshake", "close"), ("I.trunc@-1", "after-handshake", "reset")) + (() if ctx.quick else (("garbage.interrupt", "first", "close"), ("C.trunc@39", "first", "reset"), ("I.raises-unserialisable", "after-handshake", "close"))):
            cfgs.append({"server": server, "timeout": 0.0, "pool": "roomy", "stream": lab, "phase": phase, "ending": ending, "witness_reconnects": True,
                         "p": 1, "r": 1, "horizon": 4000})
    # the well-behaved client makes one call whose exception text its serializer cannot encode
    for server in ("multiplex", "thread"):
        for sername in ("json", "msgpack", "serpent"):
            cfgs.append({"server": server, "timeout": 0.0, "pool": "roomy", "stream": "garbage.interrupt", "phase": "first", "ending": "close", "witness_odd_call": sername, "p": 0, "r": 1, "horizon": 4000})
    # the process runs out of descriptors for a while: accept() fails 3 / 8 / 20 times in a row while connections are pending
    for server in ("multiplex", "thread"):
        for nf in (3, 8, 20):
            cfgs.append({"server": server, "timeout": 0.0, "pool": "roomy", "stream": "garbage.interrupt", "phase": "first", "ending": "close", "accept_faults": nf, "p": 0, "r": 0, "horizon": 6000})
    # every stream once more under the default schedule with debug logging switched on (the daemon's log calls format their arguments)
    for c in list(cfgs):
        if c["p"] == 0 and c["r"] == 0 and c["server"] in ("multiplex", "thread") and c["timeout"] == 0.0 and c["ending"] in ("close", "reset") and c["pool"] != "full":
            cfgs.append(dict(c, logging=True))
    stats = explore_parallel(ctx, task, cfgs, lambda c: c["p"], lambda c: c["r"])
    pipe_outcomes = []
    for kind in ("calls", "oneway"):
        for first in ("hostile", "witness"):
            r = pipeline_step(kind, first)
            pipe_outcomes.append(r["outcome"])
            stats.violations.extend(r["violations"])
    ns = len(attack_streams(ctx.quick))
    cov = coverage_from_stats(
        stats,
        rule="%d hostile byte streams (every header field of a valid CONNECT and a valid INVOKE at boundary values, inconsistent data/annotation lengths, every truncation at "
             "field boundaries, garbage payload, compression flag on plain data, duplicated message, 18 semantically hostile INVOKEs incl. methods raising unserialisable / "
             "unknown Exception subclasses, raw garbage and an HTTP request) x sent as first bytes / after a valid handshake x ended by close / reset / read-then-close x "
             "{multiplex, thread-pool} x COMMTIMEOUT {0, 3} x {roomy pool, pool of one held by the witness}; attacker, witness (three token calls) and a later fresh client "
             "run under all interleavings within the per-config budget on the real requestLoop; oracle: witness tokens exact, fresh client served, loop thread alive, "
             "busy/idle resp. selector map restored; distinct = observation classes" % ns,
        extra={"pipelined_stream_step": {"what": "multiplex server, synchronous world: K in %r complete requests (normal / oneway) of one connection and one request of another waiting in the same poll round, both registration orders; the other connection must not be served after all K for every K" % (PIPE_K,), "executions": 4 * len(PIPE_K), "outcomes": pipe_outcomes}, "configs": len(cfgs), "budgets_p_r": sorted({(c["p"], c["r"]) for c in cfgs}), "bound_completed": "every execution within each configuration's (preemption, reordering) budget was run to completion"})
    return {"violations": stats.violations, "coverage": cov,
            "assumptions": ["hostile input arrives in whole writes per step (byte-level fragmentation is C06/C17's subject)",
                            "a peer that sends a partial message and stays connected legitimately keeps a multiplex server waiting until it disconnects or COMMTIMEOUT fires"]}


def replay(ctx, payload):
    if "pipeline" in payload["replay"]["cfg"]:
        c = payload["replay"]["cfg"]
        return pipeline_step(c["pipeline"], c["first"])
    run_fn = make_run(payload["replay"]["cfg"])
    res = run_fn(Chooser([tuple(c) for c in payload["choices"]]))
    return {"outcome": res["outcome"], "violations": res["violations"]}
