"""
C20 - the HTTP gateway forwards only authorised requests, and forwards them faithfully.
Engine S (inputs + two-request histories): the real WSGI app in front of a real name server and real objects on the
in-memory transport, with traffic counters and invocation logs; reference function expected(request, config).
"""
import gc
import io
import itertools
import json
import re
import urllib.parse

from vf.explore import Stats
from vf.common import coverage_from_stats
from vf.values import show

PID = "C20"
KEY = "K3y"
METHODS = ["GET", "POST", "OPTIONS", "PUT", "DELETE", "HEAD"]
PATHS = ["", "/", "/pyro", "/pyro/", "/pyro/http.a", "/pyro/http.a/", "/pyro/http.a/m", "/pyro/http.a/m/extra", "/pyro/http.ab/m", "/pyro/HTTP.a/m", "/pyro/http./m",
         "/pyro/xhttp.a/m", "/pyro/hidden.x/m", "/pyro/http.a/$meta", "/pyro/hidden.x/$meta", "/pyro/http.a/attr", "/pyro/http.a/secret", "/pyro/http.a/_private",
         "/pyro/http.a/_pyroRelease", "/pyro/http.a/_pyroBind", "/pyro/http.a/__class__", "/pyro/http.a/fail", "/pyro/http.a/ow", "/pyro/http.zz/m", "/other/x",
         "/pyro/http.a/M", "/pyro/http.a\n/m", "/pyro//m", "//pyro/http.a/m", "/pyro/http.a/no_such",
         "/pyro/http.a%62/m", "/pyro/http.a/%6d", "/pyro/http.a/%24meta", "/pyro/internal.http.a/m"]
QUERIES = ["", "x=1", "x=1&y=b", "$key=" + KEY, "$key=WRONG", "x=1&$key=" + KEY, "x=1&x=2", "$key=%s&$key=%s" % (KEY, KEY), "x=", "$key=",
           "x=a;b", "x=1;y=2", "x=1;$key=" + KEY, "x=%3B&y=a+b"]
KEYHDR = [None, "WRONG", KEY]
OPTHDR = [None, "oneway"]
CONFIGS = [(k, p) for k in (None, KEY) for p in (r"http\.", r"^http\.a$", "")]


def parse_params(qs):
    d = urllib.parse.parse_qs(qs)
    out = {}
    for k, v in d.items():
        out[k] = v[0] if len(v) == 1 else v
    return out


def expected(req, cfg):
    """reference function written from the property statement. returns dict(status=set of allowed codes, traffic=bool, invoke=None|(obj, member, kwargs))"""
    method, path, qs, keyhdr, opt = req
    key, pattern = cfg
    p = path.lstrip("/")
    if not p:
        return {"status": {302}, "traffic": False, "invoke": None, "why": "redirect"}
    if not p.startswith("pyro/"):
        return {"status": {404}, "traffic": False, "invoke": None, "why": "not-found"}
    if method not in ("GET", "POST", "OPTIONS"):
        return {"status": {405}, "traffic": False, "invoke": None, "why": "method"}
    if method == "OPTIONS":
        return {"status": {200}, "traffic": False, "invoke": None, "why": "options"}
    rest = p[5:]
    if not rest:
        return {"status": {200}, "traffic": True, "invoke": None, "why": "index"}
    m = re.match(r"(.+)/(.+)", rest)
    if not m:
        return {"status": {404}, "traffic": False, "invoke": None, "why": "no-member"}
    obj, member = m.groups()
    params = parse_params(qs)
    if key:
        presented = keyhdr or params.get("$key", "")
        if isinstance(presented, list) or presented != key:
            return {"status": {403}, "traffic": False, "invoke": None, "why": "key"}
        params.pop("$key", None)
    if pattern and not re.match(pattern, obj):
        return {"status": {403}, "traffic": False, "invoke": None, "why": "pattern"}
    known = {"http.a": "a", "http.ab": "ab", "hidden.x": "x"}
    if obj not in known:
        return {"status": {500, 404}, "traffic": True, "invoke": None, "why": "unknown-object"}
    if member == "$meta":
        return {"status": {200}, "traffic": True, "invoke": None, "why": "meta", "obj": known[obj]}
    if member == "attr":
        if params:
            return {"status": {500, 400}, "traffic": True, "invoke": None, "why": "attr-with-params"}
        return {"status": {200}, "traffic": True, "invoke": (known[obj], "attr", {}), "why": "attr", "body": "attr-of-" + known[obj]}
    if member in ("m", "fail", "ow"):
        st = {200} if (member != "fail" or opt == "oneway") else {500}     # a oneway request cannot report the call's error
        return {"status": st, "traffic": True, "invoke": (known[obj], member, params), "why": "call",
                "oneway": opt == "oneway" or member == "ow"}
    return {"status": {500, 404, 403}, "traffic": True, "invoke": None, "why": "unexposed-member"}


class Gateway:
    def __init__(self):
        from vf.syncworld import SyncWorld
        from vf import targets
        from Pyro5 import client, core, nameserver, config
        from Pyro5.utils import httpgateway
        self.hg = httpgateway
        self.w = SyncWorld(SERIALIZER="serpent")
        self.core = core
        self.nsd = self.w.daemon()
        self.ns = nameserver.NameServer()
        self.nsuri = self.nsd.register(self.ns, core.NAMESERVER_NAME)
        self.ns.register(core.NAMESERVER_NAME, self.nsuri)
        self.d = self.w.daemon()
        self.hd = self.w.daemon()       # the object that is not exposed through the gateway lives on a daemon of its own
        self.objs = {"a": targets.GwTarget("a"), "ab": targets.GwTarget("ab"), "x": targets.GwTarget("x")}
        self.ns.register("http.a", self.d.register(self.objs["a"], "obja"))
        self.ns.register("http.ab", self.d.register(self.objs["ab"], "objab"))
        self.ns.register("hidden.x", self.hd.register(self.objs["x"], "objx"))
        self._locate = core.locate_ns
        self.ns_lookups = []
        orig_lookup = self.ns.lookup

        def counting_lookup(name, return_metadata=False):
            self.ns_lookups.append(name)
            return orig_lookup(name, return_metadata)
        counting_lookup._pyroExposed = True
        self.ns.lookup = counting_lookup
        core.locate_ns = lambda *a, **k: client.Proxy(self.nsuri)
        self.saved = (httpgateway.pyro_app.ns_regex, httpgateway.pyro_app.gateway_key, httpgateway.pyro_app.comm_timeout)
        httpgateway._nameserver = None
        httpgateway.pyro_app.comm_timeout = 0.0

    def close(self):
        hg = self.hg
        if hg._nameserver is not None:
            try:
                hg._nameserver._pyroRelease()
            except Exception:
                pass
        hg._nameserver = None
        hg.pyro_app.ns_regex, hg.pyro_app.gateway_key, hg.pyro_app.comm_timeout = self.saved
        self.core.locate_ns = self._locate
        from Pyro5.callcontext import current_context
        current_context.correlation_id = None
        self.w.close()

    def traffic(self):
        return (len(self.w.net.sockets), sum(len(c.sent) for c, s in self.w.net.sockets), len(self.ns_lookups), sum(len(o.log) for o in self.objs.values()))

    def hidden_connections(self):
        return sum(1 for c, s in self.w.net.sockets if s.addr == self.hd.transportServer.sock.getsockname() or c.peeraddr[1] == 3)

    def request(self, req, cfg):
        method, path, qs, keyhdr, opt = req
        key, pattern = cfg
        hg = self.hg
        hg.pyro_app.gateway_key = key.encode("utf-8") if key else None
        hg.pyro_app.ns_regex = pattern
        environ = {"REQUEST_METHOD": method, "PATH_INFO": path, "QUERY_STRING": qs, "wsgi.errors": io.StringIO()}
        if keyhdr is not None:
            environ["HTTP_X_PYRO_GATEWAY_KEY"] = keyhdr
        if opt is not None:
            environ["HTTP_X_PYRO_OPTIONS"] = opt
        out = {}

        def start_response(status, headers):
            out["status"] = int(status.split()[0])
            out["headers"] = headers
        import contextlib
        buf = io.StringIO()
        try:
            with contextlib.redirect_stdout(buf):
                body = hg.pyro_app(environ, start_response)
            out["body"] = b"".join(body)
        except Exception as x:
            out["crash"] = x
        return out


def check_request(gw, req, cfg, V, st):
    for o in gw.objs.values():
        del o.log[:]
    t0 = gw.traffic()
    h0 = gw.hidden_connections()
    res = gw.request(req, cfg)
    t1 = gw.traffic()
    exp = expected(req, cfg)
    st.points += 1
    why = exp["why"]
    inv = [(lab, e[0], e[1]) for lab, o in gw.objs.items() for e in o.log]
    if "crash" in res:
        V("unhandled-exception|%s|%s" % (why, type(res["crash"]).__name__), "the WSGI app raised %r instead of answering" % res["crash"], req, cfg)
        if not exp["traffic"] and t1 != t0:
            V("pyro-traffic-for-refused-request|%s" % why, "traffic counters %r -> %r" % (t0, t1), req, cfg)
        return ("crash", why)
    status = res.get("status")
    if status not in exp["status"]:
        V("wrong-status|%s|%s-instead-of-%s" % (why, status, "/".join(str(s) for s in sorted(exp["status"]))), "status %s, body %s" % (status, show(res.get("body"), 120)), req, cfg)
    if not exp["traffic"]:
        if t1 != t0:
            V("pyro-traffic-for-refused-request|%s" % why, "connections/bytes/lookups/invocations %r -> %r" % (t0, t1), req, cfg)
    want_inv = exp["invoke"]
    if want_inv is None:
        if inv:
            V("invocation-without-authorisation-or-request|%s" % why, "objects were invoked: %r" % inv, req, cfg)
    else:
        lab, member, kwargs = want_inv
        if exp["status"] & {200, 500} and status in exp["status"]:
            if len(inv) != 1 or inv[0][0] != lab or inv[0][1] != member or inv[0][2] != kwargs:
                V("forwarded-unfaithfully|%s|%s" % (member, "none" if not inv else ("twice" if len(inv) > 1 else ("other-object" if inv[0][0] != lab else ("other-member" if inv[0][1] != member else "other-params")))),
                  "expected one invocation %r, log shows %r" % ((lab, member, kwargs), inv), req, cfg)
            if member == "m" and status == 200 and not exp.get("oneway"):
                try:
                    body = json.loads(res["body"].decode("utf-8"))
                    if body != [lab, [list(i) for i in sorted(kwargs.items())]]:
                        V("wrong-result-body", "body %r" % (body,), req, cfg)
                except Exception as x:
                    V("result-not-json|%s" % type(x).__name__, "%r" % res["body"][:100], req, cfg)
            if member == "attr" and status == 200 and req[4] != "oneway":
                try:
                    if json.loads(res["body"].decode("utf-8")) != exp["body"]:
                        V("wrong-attribute-body", "%r" % res["body"][:100], req, cfg)
                except ValueError:
                    V("attribute-body-not-json", "%r" % res["body"][:100], req, cfg)
            if member == "fail" and status == 500 and b"gw-failure" not in res["body"]:
                V("error-body-lacks-the-error", "%r" % res["body"][:200], req, cfg)
    if why == "meta" and status == 200:
        md = json.loads(res["body"].decode("utf-8"))
        if set(md.get("methods", [])) != {"m", "fail", "ow", "drop"} or set(md.get("attributes", [])) != {"attr"}:
            V("wrong-metadata", "%r" % (md,), req, cfg)
    key, pattern = cfg
    if pattern and gw.hidden_connections() != h0:
        V("object-outside-pattern-contacted|%s" % why, "a connection to the daemon of hidden.x was made", req, cfg)
    if status is not None and 200 <= status < 300 and why in ("key", "pattern"):
        V("success-without-authorisation|%s" % why, "status %s" % status, req, cfg)
    return (status, why)


def task(unit):
    cfgs, reqs, pairs = unit
    st = Stats()
    seen = set()

    def V(fp, what, req, cfg):
        fp = "C20|" + fp
        if fp not in seen:
            seen.add(fp)
            st.violations.append({"fingerprint": fp, "what": "%s [request=%r config=%r]" % (what, req, cfg), "replay": {"request": list(req), "config": list(cfg)}})
    gc.disable()
    gw = Gateway()
    try:
        for cfg in cfgs:
            for req in reqs:
                st.executions += 1
                oc = check_request(gw, req, cfg, V, st)
                k = "%s:%s" % oc
                st.outcomes[k] = st.outcomes.get(k, 0) + 1
                st.states.add((oc, cfg))
            # two-request histories: any request A followed by a fixed authorised probe B must leave B's behaviour unchanged
            probe = ("GET", "/pyro/http.a/m", "x=1", KEY, None)
            for a in pairs:
                st.executions += 1
                check_request(gw, a, cfg, lambda *x: None, st)
                oc = check_request(gw, probe, cfg, V, st)
                if oc[0] not in expected(probe, cfg)["status"]:
                    V("request-changes-behaviour-of-next-request|%s" % oc[0], "after %r the probe answered %r" % (a, oc), probe, cfg)
            # a network fault after delivery: the method runs and the connection to the object is reset before its reply can be written.
            # The request was forwarded once; the HTTP client gets an error (500, or the WSGI server's own 500 when the app raises), never a
            # success, and the method is not run a second time; the next request is served normally.
            if pairs and expected(probe, cfg)["invoke"] is not None:
                for o in gw.objs.values():
                    del o.log[:]
                st.executions += 1
                faulted = ("GET", "/pyro/http.a/drop", "x=1", KEY, None)
                res = gw.request(faulted, cfg)
                inv = [(lab, e[0]) for lab, o in gw.objs.items() for e in o.log]
                if inv != [("a", "drop")]:
                    V("forwarded-unfaithfully|drop|%s" % ("twice" if len(inv) > 1 else "none"), "a call whose reply was lost to a connection reset was invoked %r" % (inv,), faulted, cfg)
                if "crash" not in res and res.get("status") != 500:
                    V("wrong-status|lost-reply|%s-instead-of-500" % res.get("status"), "body %s" % show(res.get("body"), 120), faulted, cfg)
                oc = check_request(gw, probe, cfg, V, st)
                if oc[0] not in expected(probe, cfg)["status"]:
                    V("request-changes-behaviour-of-next-request|%s|after-lost-reply" % oc[0], "after the faulted request the probe answered %r" % (oc,), probe, cfg)
            # histories with a change of the name server in between: every request resolves the name anew
            if pairs:
                warm = ("GET", "/pyro/http.a/m", "x=1", KEY, None)
                uri_a = gw.ns.lookup("http.a")
                uri_ab = gw.ns.lookup("http.ab")
                for change in ("re-register", "remove"):
                    st.executions += 2
                    check_request(gw, warm, cfg, V, st)
                    if change == "re-register":
                        gw.ns.register("http.a", uri_ab)
                    else:
                        gw.ns.remove("http.a")
                    for o in gw.objs.values():
                        del o.log[:]
                    res = gw.request(warm, cfg)
                    inv = [(lab, e[0]) for lab, o in gw.objs.items() for e in o.log]
                    exp0 = expected(warm, cfg)
                    if exp0["invoke"] is not None:
                        if change == "re-register" and (res.get("status") != 200 or inv != [("ab", "m")]):
                            V("stale-name-resolution|re-registered-name", "after http.a was re-registered to another object the request gave status %s and invoked %r" % (res.get("status"), inv), warm, cfg)
                        if change == "remove" and (res.get("status") == 200 or inv):
                            V("stale-name-resolution|removed-name", "after http.a was removed the request gave status %s and invoked %r" % (res.get("status"), inv), warm, cfg)
                    gw.ns.register("http.a", uri_a)
                    check_request(gw, warm, cfg, V, st)
        if gw.w.net.pump_errors:
            V("daemon-loop-error", "%r" % gw.w.net.pump_errors[:2], (), ())
        st.samples.append({"config": list(cfgs[0]), "request": list(reqs[len(reqs) // 2]), "expected": {k: (sorted(v) if isinstance(v, set) else v) for k, v in expected(reqs[len(reqs) // 2], cfgs[0]).items()}})
    finally:
        gw.close()
        gc.enable()
        gc.collect()
    return st


def run(ctx):
    reqs = list(itertools.product(METHODS if not ctx.quick else ["GET", "POST", "OPTIONS", "PUT"], PATHS, QUERIES, KEYHDR, OPTHDR))
    pairs = [r for r in reqs if r[0] == "GET" and r[2] in ("", "x=1", "$key=WRONG") and r[3] in (None, KEY) and r[1] in
             ("/pyro/http.a/ow", "/pyro/http.a/fail", "/pyro/http.a/_pyroRelease", "/pyro/hidden.x/m", "/pyro/http.a/$meta", "/pyro/", "/pyro/http.a/attr")]
    units = []
    n = 6
    for cfg in CONFIGS:
        for i in range(n):
            units.append(([cfg], reqs[i::n], pairs if i == 0 else []))
    total = Stats()
    for st in ctx.pmap(task, units):
        total.merge(st)
    cov = coverage_from_stats(
        total,
        rule="full product request method (%d) x path (%d: zero to several segments, names differing from an exposed name by prefix/suffix/case, $meta, exposed attribute, "
             "unexposed/private/proxy-internal member names, encoded newline, name server itself) x query string (%d: none, one, two, repeated parameter, $key right/wrong/"
             "repeated/empty) x key header {absent, wrong, right} x options header {none, oneway} x 6 configurations (key unset/set x expose pattern default/anchored/empty), "
             "through the real pyro_app in front of a real name server and three real objects; plus two-request histories (request A, then a fixed authorised probe); "
             "oracle: reference function expected(request, config) for status class, Pyro traffic counters (connections, bytes, name-server lookups), invocation logs "
             "(which object, member, parameters, how often) and response body; distinct = (status, reason, configuration) classes" % (len(METHODS) if not ctx.quick else 4, len(PATHS), len(QUERIES)),
        nontrivial=len(total.states))
    return {"violations": total.violations, "coverage": cov,
            "assumptions": ["core.locate_ns is replaced by a factory returning a proxy to the harness' name server (no broadcast lookup)",
                            "HTTP parsing is the WSGI server's business: the app is driven with environ dicts"]}


def replay(ctx, payload):
    r = payload["replay"]
    st = task(([tuple(r["config"])], [tuple(r["request"])], []))
    return {"violations": st.violations}
