"""
C04 - deserialisation builds only data and a fixed set of known classes.
Engine S (inputs): class-tagged payload trees (tag x exception flag x members x wrapper) encoded with the raw codecs,
decoded through loads and loadsCall of all four serializers; closed-world type oracle + interpreter audit events.
"""
import builtins
import datetime
import decimal
import json
import marshal
import sys
import uuid

from vf.explore import Stats
from vf.common import coverage_from_stats
from vf.values import show

PID = "C04"
SAFE_ARG = "/nonexistent/vf-c04"

_audit = {"active": False, "events": [], "installed": False, "preloaded": None}
WATCH_PREFIX = ("socket.", "subprocess.", "os.system", "os.exec", "os.spawn", "os.posix_spawn", "os.fork", "ctypes.", "os.remove", "os.rename", "os.mkdir",
                "shutil.", "pty.", "winreg.", "urllib.", "http.", "ftplib.", "webbrowser.")


def _hook(event, args):
    if not _audit["active"]:
        return
    if event == "import":
        mod = args[0]
        if mod not in _audit["preloaded"] and mod.split(".")[0] not in ("sqlite3", "_sqlite3"):
            _audit["events"].append("import:" + mod)
    elif event in ("exec", "open", "os.system", "os.listdir", "os.scandir", "builtins.input", "builtins.breakpoint", "sys._getframe"):
        if event == "sys._getframe":
            return
        _audit["events"].append(event + ":" + show(args, 60))
    elif event.startswith(WATCH_PREFIX):
        _audit["events"].append(event)


def install_audit():
    if not _audit["installed"]:
        _audit["preloaded"] = set(sys.modules)
        sys.addaudithook(_hook)
        _audit["installed"] = True


def namespace_variants():
    """module-like names that are near misses of the namespaces the decoder trusts (prefix, suffix, infix, case, extension);
    each is importable while the canary finder is installed, and importing it is recorded"""
    out = set()
    for ns in ("builtins", "exceptions", "sqlite3", "struct", "errors"):
        out |= {ns[:-1], ns[1:], ns[1:-1], ns[:3], ns[-3:], ns[:1], ns.upper(), ns.capitalize(), ns + "x", "x" + ns, ns + "_"}
    out |= {"sql", "lite", "q", "sqlite", "Pyro5x", "pyro5", "util", "Pyro", "ite3"}
    import sys as _s
    return {n for n in out if n.isidentifier() and n not in _s.modules and n not in ("builtins", "exceptions", "sqlite3", "struct", "errors")}


CANARY_MODULES = namespace_variants()


class CanaryFinder(object):
    """meta path finder: makes every near-miss namespace importable as an 'application module' full of exception classes"""
    def find_spec(self, name, path=None, target=None):
        if name in CANARY_MODULES:
            import importlib.machinery
            return importlib.machinery.ModuleSpec(name, self)
        return None

    def create_module(self, spec):
        return None

    def exec_module(self, module):
        from vf import targets
        targets.Canary.log.append(("canary-module-executed", module.__name__))

        def mk(n):
            def init(self, *a, **k):
                targets.Canary.log.append(("canary-class-built", module.__name__ + "." + n))
                Exception.__init__(self, *a)
            return type(n, (Exception,), {"__init__": init, "__module__": module.__name__})
        for n in ("Error", "XError", "error", "OperationalError", "PyroError", "Exception", "URI"):
            setattr(module, n, mk(n))


def install_canary_finder():
    if not any(isinstance(f, CanaryFinder) for f in sys.meta_path):
        sys.meta_path.insert(0, CanaryFinder())


def purge_canary_modules():
    for n in CANARY_MODULES:
        sys.modules.pop(n, None)


def tag_list(quick):
    from Pyro5 import errors
    import sqlite3
    tags = []
    for n in sorted(vars(builtins)):
        tags += [n, "builtins." + n, "exceptions." + n]
    for n in sorted(vars(errors)):
        tags.append("Pyro5.errors." + n)
    tags += ["Pyro5.core.URI", "Pyro5.client.Proxy", "Pyro5.server.Daemon", "Pyro5.server.DaemonObject", "Pyro5.core._ExceptionWrapper",
             "Pyro5.util.SerpentSerializer", "Pyro5.util.MarshalSerializer", "Pyro5.util.JsonSerializer", "Pyro5.util.MsgpackSerializer", "Pyro5.util.Other",
             "Pyro5.util.", "Pyro5.nameserver.NameServer", "Pyro5.client.SerializedBlob", "Pyro5.client.BatchProxy", "Pyro5.core.resolve", "Pyro5.errors.",
             "Pyro5.errors.errors.PyroError", "Pyro5.errors.sys.exit", "Pyro5.socketutil.SocketConnection", "Pyro5.serializers.SerializerBase"]
    tags += ["struct.error", "struct.pack", "struct.Struct", "struct.", "struct.error.x"]
    for n in sorted(dir(sqlite3)):
        if not n.startswith("_"):
            tags.append("sqlite3." + n)
    tags += ["sqlite3.connect", "sqlite3.dbapi2.Error", "sqlite3.", "sqlite3.XError"]
    tags += ["os.system", "os._exit", "subprocess.Popen", "subprocess.CalledProcessError", "os.path.join", "sys.exit", "importlib.import_module", "vf.targets.Canary",
             "vf.targets.CustomError", "__main__.X", "a.__class__", "builtins.__import__", "__import__", "builtins.__build_class__", "exceptions.__import__",
             "x__y", "__", "", ".", "..", "builtins.", ".eval", "float", "int", "builtins.float", "decimal.Decimal", "uuid.UUID", "datetime.datetime",
             "socket.socket", "socket.error", "socket.timeout", "ssl.SSLError", "zlib.error", "json.JSONDecodeError", "<unknown>", "Exception ", " Exception", "exception",
             "builtins.Exception.__init__", "builtins.BaseException.with_traceback", "Pyro5.errors.PyroError.__init__", "Pyro5.errors.__builtins__"]
    tags += ["Pyro5.util.PickleSerializer", "Pyro5.util.Serializer", "Pyro5.util.serpentSerializer", "Pyro5.util.os.systemSerializer", "Pyro5.util.SerializerBase",
             "Pyro5.util.AppSerializer", "Pyro5.utils.SerpentSerializer", "Pyro5.serializers.SerpentSerializer"]
    # legacy / alias spellings of the builtins namespace (all carry a double underscore or are simply unknown)
    for n in ("ValueError", "SystemExit", "KeyboardInterrupt", "Exception", "OSError", "eval"):
        tags += ["__builtin__." + n, "__builtins__." + n, "__main__." + n, "builtin." + n, "_builtins." + n, "exceptions__." + n, "builtins.__builtins__." + n]
    # application subclasses of Pyro's own serialisable classes that are loaded in this process
    tags += ["vf.targets.AppProxy", "vf.targets.AppURI", "vf.targets.AppDaemon", "targets.AppProxy", "AppProxy"]
    for ns in sorted(CANARY_MODULES):
        for short in ("Error", "XError", "error", "OperationalError", "PyroError", "Exception", "URI"):
            tags.append(ns + "." + short)
    if quick:
        keep = set(t for t in tags if not t.startswith("exceptions.") or t.split(".")[1][:1] in "eEoOiIS_")
        tags = [t for t in tags if t in keep]
    out = []
    seen = set()
    for t in tags:
        if t not in seen:
            seen.add(t)
            out.append(t)
    return out


def allowed_tag(tag, flag):
    """independent statement of the closed world (from the property text): may this tag produce an object?"""
    from Pyro5 import errors
    import sqlite3
    if not isinstance(tag, str) or "__" in tag:
        return False
    if tag in ("Pyro5.core.URI", "Pyro5.client.Proxy", "Pyro5.server.Daemon", "Pyro5.core._ExceptionWrapper", "struct.error",
               "Pyro5.util.SerpentSerializer", "Pyro5.util.MarshalSerializer", "Pyro5.util.JsonSerializer", "Pyro5.util.MsgpackSerializer"):
        return True
    if tag.startswith("Pyro5.errors."):
        t = vars(errors).get(tag[len("Pyro5.errors."):])
        return isinstance(t, type) and issubclass(t, errors.PyroError)
    if flag:
        short = tag
        for pre in ("builtins.", "exceptions."):
            if tag.startswith(pre):
                short = tag[len(pre):]
        t = vars(builtins).get(short)
        if isinstance(t, type) and issubclass(t, BaseException) and "." not in short:
            return True
        if "." not in tag:
            t = vars(errors).get(tag)
            if isinstance(t, type) and issubclass(t, errors.PyroError):
                return True
        if tag.startswith("sqlite3."):
            t = getattr(sqlite3, tag[8:], None)
            return isinstance(t, type) and issubclass(t, BaseException)
    return False


def allowed_types():
    from Pyro5 import errors, core, client, server, serializers
    import sqlite3
    import struct
    ok = {type(None), bool, int, float, complex, str, bytes, bytearray, list, tuple, set, frozenset, dict, memoryview,
          datetime.datetime, datetime.date, decimal.Decimal, uuid.UUID,
          core.URI, client.Proxy, server.Daemon, core._ExceptionWrapper, serializers.SerpentSerializer, serializers.MarshalSerializer,
          serializers.JsonSerializer, serializers.MsgpackSerializer, struct.error}
    for t in vars(builtins).values():
        if isinstance(t, type) and issubclass(t, BaseException):
            ok.add(t)
    for t in vars(errors).values():
        if isinstance(t, type) and issubclass(t, errors.PyroError):
            ok.add(t)
    for n in dir(sqlite3):
        t = getattr(sqlite3, n)
        if isinstance(t, type) and issubclass(t, BaseException):
            ok.add(t)
    return ok


def foreign_types(v, ok, depth=0, out=None):
    out = out if out is not None else set()
    if depth > 8:
        return out
    t = type(v)
    if t not in ok:
        out.add(t.__module__ + "." + t.__name__)
        return out
    if t in (list, tuple, set, frozenset):
        for x in v:
            foreign_types(x, ok, depth + 1, out)
    elif t is dict:
        for k, x in v.items():
            foreign_types(k, ok, depth + 1, out)
            foreign_types(x, ok, depth + 1, out)
    elif isinstance(v, BaseException):
        foreign_types(list(v.args), ok, depth + 1, out)
        foreign_types(dict(vars(v)), ok, depth + 1, out)
    elif t.__name__ == "_ExceptionWrapper":
        foreign_types(v.exception, ok, depth + 1, out)
    return out


MEMBERS = {
    "args1": lambda: {"args": [SAFE_ARG], "attributes": {}},
    "hostile-attrs": lambda: {"args": [SAFE_ARG], "attributes": {"__class__": "x", "__dict__": {"a": 1}, "args": 5, "custom": 1, "__init__": None}},
    "no-args": lambda: {},
    "args-str": lambda: {"args": "ab"},
    "attrs-nondict": lambda: {"args": [], "attributes": 5},
    "state-proxy": lambda: {"state": ["PYRO:o@h:1", [], ["m"], [], "hello", None]},
    "state-uri": lambda: {"state": ["PYRO", "o", None, "h", 1]},
    "state-empty": lambda: {"state": []},
    "nested-args": lambda: {"args": [{"__class__": "builtins.eval", "__exception__": True, "args": [SAFE_ARG]}], "attributes": {}},
    "nested-attr": lambda: {"args": [], "attributes": {"x": {"__class__": "vf.targets.Canary", "args": [1]}}},
    "state-proxy-nested1": lambda: {"state": ["PYRO:o@h:1", {"__class__": "Pyro5.client.Proxy", "state": ["PYRO:inner@h:1", [], [], [], "hello", None]}, ["m"], [], "hello", None]},
    "state-proxy-nested0": lambda: {"state": [{"__class__": "Pyro5.client.Proxy", "state": ["PYRO:inner@h:1", [], [], [], "hello", None]}, [], ["m"], [], "hello", None]},
    "args-is-proxy": lambda: {"args": {"__class__": "Pyro5.client.Proxy", "state": ["PYRO:inner@h:1", [], [], [], "hello", None]}, "attributes": {}},
    "attrs-is-proxy": lambda: {"args": [], "attributes": {"__class__": "Pyro5.client.Proxy", "state": ["PYRO:inner@h:1", [], [], [], "hello", None]}},
    "state-is-proxy": lambda: {"state": {"__class__": "Pyro5.client.Proxy", "state": ["PYRO:inner@h:1", [], [], [], "hello", None]}},
    "wrapper-exc": lambda: {"exception": {"__class__": "os.system", "__exception__": True, "args": [SAFE_ARG]}},
    "wrapper-exc-popen": lambda: {"exception": {"__class__": "subprocess.Popen", "__exception__": True, "args": [SAFE_ARG]}},
    "wrapper-exc-app": lambda: {"exception": {"__class__": "vf.targets.CustomError", "__exception__": True, "args": [SAFE_ARG], "attributes": {}}},
    "wrapper-plain": lambda: {"exception": 5},
}


def _inner(kind):
    if kind == "proxy":     # no methods/attrs known: iterating it or asking it for any attribute would fetch the metadata remotely
        return {"__class__": "Pyro5.client.Proxy", "state": ["PYRO:inner@h:1", [], [], [], "hello", None]}
    if kind == "canary":
        return {"__class__": "vf.targets.Canary", "args": [1]}
    return {"__class__": "Pyro5.core.URI", "state": ["PYRO", "o", None, "h", 1]}


# a tagged dict in every argument position and under every attribute name that an exception constructor / attribute setter treats
# specially (BaseException.args tuples its value, ExceptionGroup / SyntaxError / OSError iterate or unpack their 2nd argument, ...)
for _k in ("proxy", "canary", "uri"):
    MEMBERS["arg0-" + _k] = lambda _k=_k: {"args": [_inner(_k)], "attributes": {}}
    MEMBERS["arg1-" + _k] = lambda _k=_k: {"args": [SAFE_ARG, _inner(_k)], "attributes": {}}
    MEMBERS["arg1-list-" + _k] = lambda _k=_k: {"args": [SAFE_ARG, [_inner(_k)]], "attributes": {}}
    for _a in ("args", "__notes__", "__cause__", "__context__", "__traceback__", "msg", "filename", "name", "x"):
        MEMBERS["attr-%s-%s" % (_a, _k)] = lambda _k=_k, _a=_a: {"args": [SAFE_ARG], "attributes": {_a: _inner(_k)}}

WRAPPERS = {
    "bare": lambda x: x,
    "list": lambda x: [1, x],
    "dict": lambda x: {"k": x, "j": "v"},
    "deep": lambda x: {"a": [{"b": [x]}]},
    "tuple": lambda x: (x, 2),
}
FLAGS = {"absent": None, "True": True, "False": False, "1": 1}


def encoders():
    import serpent
    import msgpack
    return {
        "serpent": (lambda t: serpent.dumps(t), lambda t: serpent.dumps(("obj", "meth", (t,), {"kw": t}))),
        "marshal": (lambda t: marshal.dumps(t), lambda t: marshal.dumps(("obj", "meth", (t,), {"kw": t}))),
        "json": (lambda t: json.dumps(t).encode("utf-8"), lambda t: json.dumps({"object": "obj", "method": "meth", "params": [t], "kwargs": {"kw": t}}).encode("utf-8")),
        "msgpack": (lambda t: msgpack.packb(t, use_bin_type=True), lambda t: msgpack.packb(("obj", "meth", (t,), {"kw": t}), use_bin_type=True)),
    }


def task(unit):
    from Pyro5 import serializers, errors
    from vf import targets
    tags, quick = unit
    install_audit()
    install_canary_finder()
    ok_types = allowed_types()
    enc = encoders()
    st = Stats()
    seen = set()

    def V(fp, what, case):
        fp = "C04|" + fp
        if fp not in seen:
            seen.add(fp)
            st.violations.append({"fingerprint": fp, "what": "%s [case=%s]" % (what, case), "replay": {"tags": [case[0]] if isinstance(case[0], (str, int, type(None))) else [repr(case[0])], "quick": quick}})
    for tag in tags:
        for fname, flag in FLAGS.items():
            for mname, mk in MEMBERS.items():
                if quick and mname in ("args-str", "attrs-nondict", "state-empty", "wrapper-plain") and fname not in ("True",):
                    continue
                positional = mname.startswith(("arg0-", "arg1-", "attr-"))
                if positional and quick and not (allowed_tag(tag, True) or allowed_tag(tag, False)):
                    continue       # thorough: every tag
                node = dict(mk())
                node["__class__"] = tag
                if flag is not None:
                    node["__exception__"] = flag
                for wname, wrap in WRAPPERS.items():
                    if quick and wname in ("tuple", "dict") and mname != "args1":
                        continue
                    if positional and wname not in (("bare",) if quick else ("bare", "deep")):
                        continue
                    tree = wrap(node)
                    for sname in sorted(serializers.serializers):
                        ser = serializers.serializers[sname]
                        for path in (0, 1):
                            try:
                                payload = enc[sname][path](tree)
                            except Exception:
                                continue       # this codec cannot even express the tree
                            case = (tag, fname, mname, wname, sname, "loads" if path == 0 else "loadsCall")
                            del targets.Canary.log[:]
                            _audit["events"] = []
                            _audit["active"] = True
                            try:
                                try:
                                    val = ser.loads(payload) if path == 0 else ser.loadsCall(payload)
                                    res = ("ok", val)
                                except Exception as x:
                                    res = ("exc", x)
                                except BaseException as x:
                                    res = ("base-exc", x)
                            finally:
                                _audit["active"] = False
                                purge_canary_modules()
                            st.executions += 1
                            events = [e for e in _audit["events"] if not (sname == "serpent" and e.startswith("compile"))]
                            tagkind = "dunder" if (isinstance(tag, str) and "__" in tag) else ("allowed" if allowed_tag(tag, bool(flag)) else "foreign")
                            if events:
                                V("side-effect-while-decoding|%s|%s" % (events[0].split(":")[0], tagkind), "audit events %r" % events[:4], case)
                            if targets.Canary.log:
                                V("application-constructor-called", "Canary log %r" % targets.Canary.log[:3], case)
                            if mname.startswith("wrapper-exc") and tag == "Pyro5.core._ExceptionWrapper" and res[0] == "ok":
                                # the wrapped member carries a foreign class tag: refused like anywhere else in the tree
                                V("foreign-tag-accepted|inside-exception-wrapper|%s" % mname, "decoding returned %s" % show(res[1], 160), case)
                            if res[0] == "base-exc":
                                V("decoding-raised-%s" % type(res[1]).__name__, "%r" % res[1], case)
                            elif res[0] == "ok":
                                ft = foreign_types(res[1], ok_types)
                                if ft:
                                    V("foreign-type-built|%s" % sorted(ft)[0], "decoded value contains %r: %s" % (sorted(ft), show(res[1], 200)), case)
                                if tagkind != "allowed":
                                    V("%s-tag-accepted|%s" % (tagkind, tag if len(str(tag)) < 40 else "long"), "decoding returned %s instead of raising" % show(res[1], 200), case)
                            oc = "%s:%s:%s" % (tagkind, res[0], type(res[1]).__name__ if res[0] != "ok" else "value")
                            st.outcomes[oc] = st.outcomes.get(oc, 0) + 1
        st.states.add(tag)
        st.points += 1
        if len(st.samples) < 2:
            st.samples.append({"tag": tag, "flags": list(FLAGS), "members": list(MEMBERS), "wrappers": list(WRAPPERS), "paths": ["loads", "loadsCall"]})
    return st


def registry_task(unit):
    """the opt-in converter registry is the only sanctioned extension point: a converter runs only while it is registered,
    whichever class or instance it was registered / unregistered through"""
    from Pyro5 import serializers, api
    install_audit()
    st = Stats()
    enc = encoders()
    calls = []

    def conv(classname, d):
        calls.append(classname)
        return ("converted", classname)
    handles = {"base": serializers.SerializerBase, "api": None}
    for n, ser in serializers.serializers.items():
        handles["class:" + n] = type(ser)
        handles["inst:" + n] = ser
    tag = "vf.registry.Probe"
    node = {"__class__": tag, "x": 1}
    seen = set()

    def V(fp, what):
        fp = "C04|" + fp
        if fp not in seen:
            seen.add(fp)
            st.violations.append({"fingerprint": fp, "what": what, "replay": {"registry": True}})

    def reg(h):
        if h == "api":
            api.register_dict_to_class(tag, conv)
        else:
            handles[h].register_dict_to_class(tag, conv)

    def unreg(h):
        if h == "api":
            api.unregister_dict_to_class(tag)
        else:
            handles[h].unregister_dict_to_class(tag)

    def decode_all(expect_converter, where):
        for sname in sorted(serializers.serializers):
            ser = serializers.serializers[sname]
            for path in (0, 1):
                del calls[:]
                try:
                    val = ser.loads(enc[sname][0](node)) if path == 0 else ser.loadsCall(enc[sname][1](node))
                    res = "ok"
                except Exception as x:
                    res = type(x).__name__
                st.executions += 1
                st.points += 1
                if expect_converter and not calls:
                    V("registered-converter-not-used|%s" % where[0], "%s: %s/%s gave %s without calling the registered converter" % (where, sname, path, res))
                if not expect_converter and (calls or res == "ok"):
                    V("converter-runs-although-not-registered|%s->%s" % (where[0].split(":")[0], where[1].split(":")[0]), "%s: %s/%s gave %s, converter calls %r" % (where, sname, path, res, calls))
    hs = sorted(handles)
    decode_all(False, ("never", "never"))
    for r in hs:
        for u in hs:
            reg(r)
            decode_all(True, (r, "-"))
            unreg(u)
            decode_all(False, (r, u))
            st.states.add((r, u))
            # leave no residue for the next combination
            for h in hs:
                unreg(h)
            st.outcomes["reg:%s" % r.split(":")[0]] = st.outcomes.get("reg:%s" % r.split(":")[0], 0) + 1
    # a converter registered under a bare, dot-free tag serves that tag only: no tag that merely ends in it
    for bare in ("Widget", "Error"):
        api.register_dict_to_class(bare, conv)
        try:
            for hostile in ("os." + bare, "a.b." + bare, "subprocess.Popen." + bare, "Pyro5.core." + bare, "os.__dict__." + bare, "." + bare, bare + ".x", bare.lower()):
                for sname in sorted(serializers.serializers):
                    ser = serializers.serializers[sname]
                    for path in (0, 1):
                        del calls[:]
                        hn = {"__class__": hostile, "x": 1}
                        try:
                            ser.loads(enc[sname][0](hn)) if path == 0 else ser.loadsCall(enc[sname][1](hn))
                            res = "ok"
                        except Exception as x:
                            res = type(x).__name__
                        st.executions += 1
                        if calls or res == "ok":
                            V("converter-runs-for-another-tag|%s" % bare, "converter registered for %r ran / decoding succeeded for tag %r (%s/%s): %s, calls %r" % (bare, hostile, sname, path, res, calls))
        finally:
            api.unregister_dict_to_class(bare)
    # msgpack extension types: only the four documented codes may produce values
    import msgpack
    ok_types = allowed_types()
    ser = serializers.serializers["msgpack"]
    import struct as _struct
    exts = [(-1, _struct.pack("!L", 1)), (-1, _struct.pack("!Q", 1 << 34)), (-1, b"\0" * 12), (0x30, _struct.pack("dd", 1.0, 2.0)), (0x30, b"x"), (0x31, b"123"), (0x31, b"__import__('os')"),
            (0x32, _struct.pack("d", 0.0)), (0x33, _struct.pack("l", 1)), (0x34, b"x"), (0, b""), (127, b"abc"), (-128, b"abc"), (5, b"x" * 16)]
    def raw_ext(code, data):      # ext 8 format; built by hand because the library refuses to *pack* reserved (negative) codes
        return b"\xc7" + bytes([len(data)]) + _struct.pack("b", code) + data
    for code, data in exts:
        for wname, wrapper in (("bare", lambda r: r), ("list", lambda r: b"\x91" + r), ("dict", lambda r: b"\x81\xa1k" + r)):
            body = wrapper(raw_ext(code, data))
            for path in (0, 1):
                try:
                    raw = body if path == 0 else (b"\x94" + msgpack.packb("o") + msgpack.packb("m") + b"\x91" + body + msgpack.packb({}))
                    val = ser.loads(raw) if path == 0 else ser.loadsCall(raw)
                    res = ("ok", val)
                except Exception as x:
                    res = ("exc", x)
                st.executions += 1
                if res[0] == "ok":
                    ft = foreign_types(res[1], ok_types)
                    if ft:
                        V("foreign-type-built|msgpack-ext-%d|%s" % (code, sorted(ft)[0]), "msgpack extension code %d decodes to %r" % (code, sorted(ft)))
                st.outcomes["ext%d:%s" % (code, res[0])] = st.outcomes.get("ext%d:%s" % (code, res[0]), 0) + 1
    st.samples.append({"registry_handles": hs, "msgpack_ext_codes": sorted({c for c, _ in exts})})
    return st


def chunks(lst, n):
    for i in range(0, len(lst), n):
        yield lst[i:i + n]


def run(ctx):
    tags = tag_list(ctx.quick)
    total = Stats()
    units = [(c, ctx.quick) for c in chunks(tags, 6 if ctx.quick else 4)]
    for st in ctx.pmap(task, units):
        total.merge(st)
    total.merge(registry_task(None))
    cov = coverage_from_stats(
        total,
        rule="class-tagged dicts with tag from %d strings (every builtins name bare/builtins./exceptions. prefixed, every attribute of Pyro5.errors incl. imported modules, Pyro "
             "internals, struct.*, every public sqlite3 name, os/subprocess/importlib, a harness-local class, dunder and degenerate tags) x __exception__ {absent,True,"
             "False,1} x %d member variants (hostile attributes, wrong shapes, nested tagged dicts, proxy/uri states) x %d wrappers x 4 codecs (payload built with the raw "
             "codec) x {loads, loadsCall}; oracle: closed-world type set from the property text, foreign/dunder tags must raise, audit hook (import/exec/open/socket/"
             "subprocess/os.*) silent, canary constructor never called; plus every (register through X, unregister through Y) pair over SerializerBase / api / each serializer "
             "class and instance for the opt-in converter registry, and msgpack extension codes incl. undocumented ones; distinct = distinct tags" % (len(tags), len(MEMBERS), len(WRAPPERS)),
        nontrivial=len(total.states))
    return {"violations": total.violations, "coverage": cov,
            "assumptions": ["serpent's own ast.parse 'compile' audit event is whitelisted, 'exec' is not", "no application converter is registered in the harness process"]}


def replay(ctx, payload):
    if payload["replay"].get("registry"):
        st = registry_task(None)
        return {"violations": [v for v in st.violations if v["fingerprint"] == payload["fingerprint"]]}
    st = task((payload["replay"]["tags"], False))
    return {"violations": [v for v in st.violations if v["fingerprint"] == payload["fingerprint"]], "all": sorted(v["fingerprint"] for v in st.violations)[:20]}
