"""
C06 - wire messages decode to exactly what was encoded; nothing else decodes.
Engine S (inputs): exhaustive products of field values, fragmentations and single-field mutations,
compared with an independent reference decoder written from the layout documented in protocol.py.
"""
import array
import itertools
import struct
import uuid
import zlib

from vf.explore import Stats
from vf.common import coverage_from_stats, deadline, EvaluationHang

PID = "C06"
MAGIC = 0x4dc5
F_COMPRESSED = 2
F_CORR = 64
UNMANAGED_BITS = [1 << b for b in range(16) if (1 << b) not in (F_COMPRESSED, F_CORR)]
CORR = uuid.UUID("0f1e2d3c-4b5a-6978-8796-a5b4c3d2e1f0")


def incompressible(n):
    out = bytearray()
    x = 12345
    while len(out) < n:
        x = (x * 1103515245 + 12345) & 0x7fffffff
        out.append((x >> 16) & 0xff)
    return bytes(out)


PAYLOADS = {
    "0": b"", "1": b"x", "99": b"a" * 99, "100": b"b" * 100, "101": b"c" * 101, "102": b"d" * 102,
    "1000c": b"hello world " * 84, "300i": incompressible(300), "101i": incompressible(101),
}


def annotation_sets():
    return {
        "none": {},
        "empty1": {"ABCD": b""},
        "one1": {"ABCD": b"\x01"},
        "three": {"AAAA": b"1", "BBBB": b"22" * 10, "CCCC": b""},
        "twenty": {"A%03d" % i: bytes([i]) * i for i in range(20)},
        "bytearray": {"BARR": bytearray(b"\x00\xff\x00")},
        "mview": {"MEMV": memoryview(b"view-bytes")},
        "mview_h": {"MEMH": memoryview(array.array("H", [1, 2, 3]))},
        "mview_slice": {"MEMS": memoryview(b"0123456789")[2:7]},
    }


class RefReject(Exception):
    pass


def ref_decode(b, maxsize, version, exact=True):
    """independent decoder, from the documented layout. returns dict of fields and number of bytes consumed"""
    if len(b) < 40:
        raise RefReject("short header")
    tag = b[0:4]
    ver = int.from_bytes(b[4:6], "big")
    typ = b[6]
    ser = b[7]
    flags = int.from_bytes(b[8:10], "big")
    seq = int.from_bytes(b[10:12], "big")
    dlen = int.from_bytes(b[12:16], "big")
    alen = int.from_bytes(b[16:20], "big")
    corr = bytes(b[20:36])
    magic = int.from_bytes(b[38:40], "big")
    if tag != b"PYRO" or ver != version or magic != MAGIC:
        raise RefReject("bad tag/version/magic")
    if dlen + alen > maxsize:
        raise RefReject("too large")
    body = b[40:]
    if exact:
        if len(body) != dlen + alen:
            raise RefReject("length mismatch")
    else:
        if len(body) < dlen + alen:
            raise RefReject("truncated")
        body = body[:dlen + alen]
    anns = {}
    i = 0
    while i < alen:
        if i + 8 > alen:
            raise RefReject("annotation header cut")
        key = bytes(body[i:i + 4])
        ln = int.from_bytes(body[i + 4:i + 8], "big")
        if i + 8 + ln > alen:
            raise RefReject("annotation overruns")
        if any(c > 127 for c in key):
            raise RefReject("non-ascii annotation id")
        anns[key.decode("ascii")] = bytes(body[i + 8:i + 8 + ln])
        i += 8 + ln
    data = bytes(body[alen:])
    if flags & F_COMPRESSED:
        try:
            data = zlib.decompress(data)
        except zlib.error:
            raise RefReject("bad zlib")
        flags &= ~F_COMPRESSED
    return {"type": typ, "ser": ser, "flags": flags, "seq": seq, "corr": corr, "anns": anns, "data": data}, 40 + dlen + alen


def impl_fields(msg):
    return {"type": msg.type, "ser": msg.serializer_id, "flags": msg.flags, "seq": msg.seq, "corr": bytes(msg.corr_id),
            "anns": {k: bytes(v) for k, v in msg.annotations.items()}, "data": bytes(msg.data)}


class CutSock:
    """a socket delivering a byte string cut at given offsets"""
    def __init__(self, stream, cuts=()):
        self.stream = stream
        self.cuts = sorted(set(cuts))
        self.cursor = 0
        self.asked = 0

    def recv(self, n, flags=0):
        self.asked = max(self.asked, self.cursor + n)
        end = min(self.cursor + n, len(self.stream))
        for c in self.cuts:
            if self.cursor < c < end:
                end = c
                break
        chunk = self.stream[self.cursor:end]
        self.cursor = end
        return chunk

    def shutdown(self, *a):
        pass

    def close(self):
        pass


def build(protocol, config, current_context, spec):
    typ, flags, seq, ser, pkey, akey, corr, comp, maxmode = spec
    config.COMPRESSION = comp
    config.MAX_MESSAGE_SIZE = 1 << 30
    current_context.correlation_id = CORR if corr else None
    payload = PAYLOADS[pkey]
    anns = annotation_sets()[akey]
    msg = protocol.SendingMessage(typ, flags, seq, ser, payload, annotations=anns)
    return msg, payload, anns


def expected_fields(spec, payload, anns):
    typ, flags, seq, ser, pkey, akey, corr, comp, maxmode = spec
    return {"type": typ, "ser": ser, "flags": (flags | (F_CORR if corr else 0)) & ~F_COMPRESSED, "seq": seq,
            "corr": CORR.bytes if corr else b"\0" * 16,
            "anns": {k: bytes(v) for k, v in anns.items()}, "data": payload}


def roundtrip_task(unit):
    """unit = (list of specs, cutmode)"""
    from Pyro5 import protocol, config, socketutil, errors
    from Pyro5.callcontext import current_context
    specs, cutmode = unit
    st = Stats()
    seen = set()

    def V(fp, what, spec):
        fp = "C06|" + fp
        if fp not in seen:
            seen.add(fp)
            st.violations.append({"fingerprint": fp, "what": what + " spec=%r" % (spec,), "replay": {"kind": "roundtrip", "spec": list(spec), "cutmode": cutmode}})
    version = protocol.PROTOCOL_VERSION
    for spec in specs:
        typ, flags, seq, ser, pkey, akey, corr, comp, maxmode = spec
        config.reset(False)
        try:
            msg, payload, anns = build(protocol, config, current_context, spec)
        except Exception as x:
            st.executions += 1
            V("sender-refused-buildable-message|%s" % type(x).__name__, "SendingMessage raised %r" % x, spec)
            continue
        wire = bytes(msg.data)
        want = expected_fields(spec, payload, anns)
        declared = int.from_bytes(wire[12:16], "big") + int.from_bytes(wire[16:20], "big")
        # ---- encoder vs reference decoder (own message must be parseable and mean the same)
        try:
            ref, consumed = ref_decode(wire, 1 << 30, version)
            if ref != want:
                diff = [k for k in want if ref[k] != want[k]]
                V("encoded-fields-differ|%s" % ",".join(diff), "reference decoder reads %s differently: %r vs %r" % (diff, {k: ref[k] for k in diff}, {k: want[k] for k in diff}), spec)
        except RefReject as x:
            V("encoder-output-malformed|%s|%s" % (x, akey if akey.startswith("mview") else "any"), "the sender's own bytes are not a well-formed message: %s" % x, spec)
            st.executions += 1
            continue
        if len(wire) - 40 != declared:
            V("declared-size-wrong", "header declares %d body bytes, message carries %d" % (declared, len(wire) - 40), spec)
        # ---- MAX_MESSAGE_SIZE on the sending side
        if maxmode != "default":
            config.MAX_MESSAGE_SIZE = declared if maxmode == "eq" else declared - 1
            current_context.correlation_id = CORR if corr else None
            if declared - 1 >= 0 or maxmode == "eq":
                try:
                    m2 = protocol.SendingMessage(typ, flags, seq, ser, payload, annotations=anns)
                    if maxmode == "lt":
                        V("sender-built-oversize", "declared size %d > MAX_MESSAGE_SIZE %d but the sender built it" % (declared, declared - 1), spec)
                    elif bytes(m2.data) != wire:
                        V("sender-nondeterministic", "same inputs, different bytes", spec)
                except errors.ProtocolError:
                    if maxmode == "eq":
                        V("sender-refused-fitting-message", "declared size %d == MAX_MESSAGE_SIZE but the sender refused" % declared, spec)
        # ---- stream decoding under fragmentation, followed by a sentinel message
        config.COMPRESSION = False
        current_context.correlation_id = None
        config.MAX_MESSAGE_SIZE = (1 << 30) if maxmode == "default" else (declared if maxmode == "eq" else declared - 1)
        sentinel = bytes(protocol.SendingMessage(protocol.MSG_PING, 0, 0xABCD, 42, b"sentinel").data) if maxmode == "default" else b""
        stream = wire + sentinel
        n = len(wire)
        if cutmode == "none":
            cutsets = [()]
        elif cutmode == "single":
            pos = set(range(1, min(n, 64))) | set(range(max(1, n - 12), n + 3)) | {n // 2}
            cutsets = [(c,) for c in sorted(pos)]
        else:  # pairs (and triples for very small messages)
            pos = list(range(1, min(n, 70))) + [n - 1, n, n + 1]
            cutsets = list(itertools.combinations(sorted(set(pos)), 2))
            if n <= 52:
                cutsets += list(itertools.combinations(range(1, n + 2, 3), 3))
        for cuts in cutsets:
            st.executions += 1
            sock = CutSock(stream, cuts)
            conn = socketutil.SocketConnection(sock)
            try:
                try:
                    got = protocol.recv_stub(conn)
                except Exception as x:
                    if maxmode == "lt" and isinstance(x, errors.ProtocolError):
                        if sock.asked > 40:
                            V("receiver-read-body-of-oversize-message", "asked for %d bytes before refusing" % sock.asked, spec)
                        st.outcomes["oversize-refused"] = st.outcomes.get("oversize-refused", 0) + 1
                        continue
                    V("receiver-rejected-own-message|%s" % type(x).__name__, "recv_stub raised %r with cuts %r" % (x, cuts), spec)
                    continue
                if maxmode == "lt":
                    V("receiver-accepted-oversize", "declared %d > MAX %d accepted" % (declared, declared - 1), spec)
                    continue
                f = impl_fields(got)
                if f != want:
                    diff = [k for k in want if f[k] != want[k]]
                    V("decoded-fields-differ|%s" % ",".join(diff), "cuts=%r: %r vs sent %r" % (cuts, {k: f[k] for k in diff}, {k: want[k] for k in diff}), spec)
                if sock.cursor != n:
                    V("consumed-%s" % ("more" if sock.cursor > n else "less"), "consumed %d bytes of a %d byte message (cuts %r)" % (sock.cursor, n, cuts), spec)
                elif sentinel:
                    try:
                        s2 = protocol.recv_stub(conn, [protocol.MSG_PING])
                        if bytes(s2.data) != b"sentinel" or s2.seq != 0xABCD:
                            V("sentinel-garbled", "message after it decodes wrongly", spec)
                    except Exception as x:
                        V("sentinel-lost|%s" % type(x).__name__, "the following message no longer decodes: %r (cuts %r)" % (x, cuts), spec)
                key = "ok:type=%d,comp=%s,anns=%s,corr=%s,%s" % (typ, bool(wire[9] & F_COMPRESSED), akey, corr, maxmode)
                st.outcomes[key] = st.outcomes.get(key, 0) + 1
            finally:
                conn.keep_open = True
        st.points += len(cutsets)
        if len(st.samples) < 2:
            st.samples.append({"spec": list(spec), "wire_len": n, "cutsets": len(cutsets), "header_hex": wire[:40].hex()})
        st.states.add(wire[:40] + bytes([len(wire) & 255]))
    config.reset(False)
    current_context.correlation_id = None
    return st


# ---------------------------------------------------------------------------------------------- converse direction
def mutations(wire):
    """single-field mutations of a valid encoding: yields (label, bytes)"""
    n = len(wire)

    def put(off, size, val):
        return wire[:off] + int(val).to_bytes(size, "big") + wire[off + size:]
    fields = {"tag": (0, 4), "ver": (4, 2), "type": (6, 1), "ser": (7, 1), "flags": (8, 2), "seq": (10, 2), "dlen": (12, 4),
              "alen": (16, 4), "reserved": (36, 2), "magic": (38, 2)}
    for name, (off, size) in fields.items():
        cur = int.from_bytes(wire[off:off + size], "big")
        mx = (1 << (8 * size)) - 1
        vals = {0, 1, mx, mx - 1, cur + 1, cur - 1, cur ^ 2, cur + 8, cur - 8, 1 << (8 * size - 1)}
        for v in sorted(vals):
            if 0 <= v <= mx and v != cur:
                yield "%s=%d" % (name, v), put(off, size, v)
    for v in (b"\0" * 16, b"\xff" * 16):
        yield "corr", wire[:20] + v + wire[36:]
    alen = int.from_bytes(wire[16:20], "big")
    i = 40
    k = 0
    while i + 8 <= 40 + alen:
        ln = int.from_bytes(wire[i + 4:i + 8], "big")
        for v in sorted({0, ln + 1, ln - 1, ln + 8, 0xffffffff, alen, alen - 8}):
            if 0 <= v <= 0xffffffff and v != ln:
                yield "chunk%d.len=%d" % (k, v), put(i + 4, 4, v)
        yield "chunk%d.id-nonascii" % k, wire[:i] + b"\xc3\xa9AB" + wire[i + 4:]
        yield "chunk%d.id-nul" % k, wire[:i] + b"\0\0\0\0" + wire[i + 4:]
        i += 8 + ln
        k += 1
    yield "trailing+1", wire + b"\0"
    yield "trailing+40", wire + wire[:40]
    for t in range(0, n):
        yield "truncate@%d" % t, wire[:t]
    # two-byte alterations of the 6-byte prefix
    for a, b in itertools.combinations(range(6), 2):
        for va, vb in ((0, 0), (255, 255), (wire[a] ^ 1, wire[b] ^ 1), (wire[b], wire[a])):
            m = bytearray(wire)
            m[a] = va
            m[b] = vb
            if bytes(m) != wire:
                yield "prefix[%d,%d]" % (a, b), bytes(m)


def converse_task(unit):
    from Pyro5 import protocol, config, socketutil, errors
    from Pyro5.callcontext import current_context
    specs = unit
    st = Stats()
    seen = set()
    version = protocol.PROTOCOL_VERSION

    def V(fp, what, spec, label):
        fp = "C06|" + fp
        if fp not in seen:
            seen.add(fp)
            st.violations.append({"fingerprint": fp, "what": "%s; mutation=%s spec=%r" % (what, label, spec), "replay": {"kind": "converse", "spec": list(spec), "mutation": label}})
    hung = [0]
    for spec in specs:
        if hung[0] >= 2:
            break       # a decoder that does not terminate has been reported; the rest of this unit would only wait for it again and again
        config.reset(False)
        try:
            msg, payload, anns = build(protocol, config, current_context, spec)
        except Exception:
            continue
        wire = bytes(msg.data)
        try:
            ref_decode(wire, 1 << 30, version)
        except RefReject:
            continue    # reported by the round-trip part
        config.COMPRESSION = False
        current_context.correlation_id = None
        for maxsize in (1 << 30, max(0, len(wire) - 40)):
            config.MAX_MESSAGE_SIZE = maxsize
            for label, mut in mutations(wire):
                st.executions += 1
                # (a) message-level decoder
                try:
                    ref, _ = ref_decode(mut, maxsize, version, exact=True)
                    ref_ok = True
                except RefReject as x:
                    ref, ref_ok, why = None, False, str(x)
                lab = label.split("=")[0].split("@")[0]
                try:
                    with deadline(2):
                        m = protocol.ReceivingMessage(mut[:40], mut[40:])
                    impl, impl_ok = impl_fields(m), True
                except Exception as x:
                    impl, impl_ok, ierr = None, False, x
                except EvaluationHang:
                    V("decoder-does-not-terminate|%s" % lab, "ReceivingMessage neither accepted nor refused these bytes within 2 s", spec, label)
                    hung[0] += 1
                    if hung[0] >= 2:
                        break
                    continue
                if impl_ok and not ref_ok:
                    V("decoder-accepts-malformed|%s|%s" % (lab, why), "ReceivingMessage accepted bytes the layout forbids (%s): decoded %r" % (why, {k: impl[k] for k in ("type", "flags", "anns")}), spec, label)
                elif ref_ok and not impl_ok:
                    V("decoder-rejects-wellformed|%s|%s" % (lab, type(ierr).__name__), "ReceivingMessage raised %r for a well-formed message" % ierr, spec, label)
                elif ref_ok and impl != ref:
                    diff = [k for k in ref if ref[k] != impl[k]]
                    V("decoder-misreads|%s|%s" % (lab, ",".join(diff)), "fields %s: impl %r ref %r" % (diff, {k: impl[k] for k in diff}, {k: ref[k] for k in diff}), spec, label)
                elif ref_ok:
                    # whatever is accepted re-encodes to an equivalent message
                    try:
                        current_context.correlation_id = uuid.UUID(bytes=impl["corr"]) if impl["flags"] & F_CORR else None
                        re = protocol.SendingMessage(impl["type"], impl["flags"] & ~F_CORR, impl["seq"], impl["ser"], impl["data"], annotations=impl["anns"])
                        current_context.correlation_id = None
                        again, _ = ref_decode(bytes(re.data), 1 << 30, version)
                        want = dict(impl)
                        if not impl["flags"] & F_CORR:
                            want["corr"] = b"\0" * 16
                        if again != want:
                            diff = [k for k in want if again[k] != want[k]]
                            V("reencode-differs|%s|%s" % (lab, ",".join(diff)), "decode(encode(decoded)) differs in %s" % diff, spec, label)
                    except errors.ProtocolError:
                        current_context.correlation_id = None
                    st.outcomes["accept:" + lab] = st.outcomes.get("accept:" + lab, 0) + 1
                if not ref_ok:
                    st.outcomes["reject:" + lab + ":" + why] = st.outcomes.get("reject:" + lab + ":" + why, 0) + 1
                # (b) stream-level decoder: the same bytes followed by end of stream
                try:
                    sref, sconsumed = ref_decode(mut, maxsize, version, exact=False)
                    sref_ok = True
                except RefReject as x:
                    sref, sref_ok, swhy = None, False, str(x)
                sock = CutSock(mut)
                conn = socketutil.SocketConnection(sock)
                conn.keep_open = True
                try:
                    with deadline(2):
                        g = protocol.recv_stub(conn)
                    simpl, simpl_ok = impl_fields(g), True
                except Exception as x:
                    simpl, simpl_ok, serr = None, False, x
                except EvaluationHang:
                    V("decoder-does-not-terminate|stream|%s" % lab, "recv_stub neither accepted nor refused these bytes within 2 s", spec, label)
                    hung[0] += 1
                    if hung[0] >= 2:
                        break
                    continue
                if simpl_ok and not sref_ok:
                    V("stream-decoder-accepts-malformed|%s|%s" % (lab, swhy), "recv_stub accepted (%s)" % swhy, spec, label)
                elif sref_ok and not simpl_ok:
                    V("stream-decoder-rejects-wellformed|%s|%s" % (lab, type(serr).__name__), "recv_stub raised %r" % serr, spec, label)
                elif sref_ok and (simpl != sref or sock.cursor != sconsumed):
                    V("stream-decoder-misreads|%s" % lab, "fields or consumption differ: consumed %d, expected %d" % (sock.cursor, sconsumed), spec, label)
                if not sref_ok and swhy == "too large" and sock.asked > 40:
                    V("receiver-read-body-of-oversize-message", "asked for %d bytes before refusing" % sock.asked, spec, label)
                st.points += 2
        if len(st.samples) < 1:
            st.samples.append({"converse_seed_spec": list(spec), "mutations": sum(1 for _ in mutations(wire))})
        st.states.add(wire[:24])
    config.reset(False)
    current_context.correlation_id = None
    return st


def specs_roundtrip(tier):
    types = [0, 1, 6, 255]
    flagsets = [0] + UNMANAGED_BITS[:5] + [sum(UNMANAGED_BITS)]
    seqs = [0, 1, 0xFFFF]
    sers = [0, 1, 4, 255]
    out = []
    for typ, fl, seq, ser, pk, ak, corr, comp in itertools.product(types, flagsets, seqs, sers, PAYLOADS, annotation_sets(), (False, True), (False, True)):
        out.append((typ, fl, seq, ser, pk, ak, corr, comp, "default"))
    return out


def chunks(lst, n):
    for i in range(0, len(lst), n):
        yield lst[i:i + n]


def run(ctx):
    quick = ctx.quick
    total = Stats()
    allspecs = specs_roundtrip(ctx.tier)
    # 1. full field product, unfragmented
    units = [(c, "none") for c in chunks(allspecs, 2000)]
    # 2. MAX_MESSAGE_SIZE = size / size-1 on a sub-product
    sub = [(1, 0, 7, 1, pk, ak, corr, comp, mm) for pk in PAYLOADS for ak in annotation_sets() for corr in (False, True) for comp in (False, True) for mm in ("eq", "lt")]
    units += [(c, "none") for c in chunks(sub, 300)]
    # 3. single cuts for a representative sub-product
    rep = [(typ, fl, 0xFFFF, 4, pk, ak, corr, comp, "default") for typ in (1, 255) for fl in (0, UNMANAGED_BITS[0]) for pk in (PAYLOADS if not quick else ["0", "1", "101", "1000c", "300i"])
           for ak in annotation_sets() for corr in (False, True) for comp in (False, True)]
    units += [(c, "single") for c in chunks(rep, 40)]
    # 4. all cut pairs (and triples) for small messages
    small = [(4, 0, 1, 1, pk, ak, corr, comp, "default") for pk in ("0", "1", "101i") for ak in ("none", "empty1", "one1", "three", "mview", "bytearray") for corr in (False, True) for comp in (False, True)]
    if quick:
        small = small[::3]
    units += [(c, "pairs") for c in chunks(small, 2)]
    for st in ctx.pmap(roundtrip_task, units):
        total.merge(st)
    # 5. converse: mutations of representative encodings
    seeds = [(4, fl, 258, 1, pk, ak, corr, comp, "default") for fl in (0, 1) for pk in ("0", "1", "101", "300i") for ak in ("none", "empty1", "one1", "three", "mview", "bytearray", "twenty")
             for corr in (False, True) for comp in (False, True)]
    if quick:
        seeds = [s for s in seeds if not (s[4] == "300i" and s[5] == "twenty")]
    for st in ctx.pmap(converse_task, list(chunks(seeds, 4))):
        total.merge(st)
    cov = coverage_from_stats(
        total,
        rule="(1) full product type{0,1,6,255} x flags{0, 5 single unmanaged bits, all unmanaged bits} x seq{0,1,65535} x serializer{0,1,4,255} x 9 payloads around "
             "the compression threshold x 9 annotation dictionaries (incl. bytearray/memoryview/multi-byte memoryview) x correlation id x compression, encoded by "
             "SendingMessage and read back through recv_stub(SocketConnection(fake socket)) followed by a sentinel message; (2) MAX_MESSAGE_SIZE = size and size-1; "
             "(3) every single cut in the first 64 and last 12 bytes, (4) all cut pairs (triples for tiny messages) for small messages; (5) every single-field "
             "mutation, annotation-chunk mutation, truncation and 2-byte prefix alteration of representative encodings, decided by both decoders and compared with a "
             "reference decoder written from the documented layout; distinct = distinct outcome classes",
        extra={"roundtrip_specs": len(allspecs), "converse_seeds": len(seeds)})
    return {"violations": total.violations, "coverage": cov,
            "assumptions": ["python asserts are enabled (no -O)", "reference decoder is written from the header/annotation layout documented at the top of protocol.py"]}


def replay(ctx, payload):
    r = payload["replay"]
    if r["kind"] == "roundtrip":
        st = roundtrip_task(([tuple(r["spec"])], r["cutmode"]))
    else:
        st = converse_task([tuple(r["spec"])])
    return {"violations": [v for v in st.violations if v["fingerprint"] == payload["fingerprint"]], "all": [v["fingerprint"] for v in st.violations]}
