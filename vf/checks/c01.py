"""
C01 - values cross the wire unchanged, identically for arguments and results.
Engine S (inputs) over the synchronous in-memory transport: real Proxy._pyroInvoke -> SendingMessage -> real Daemon
(multiplex events handler) -> echo target -> reply -> real client decode.
"""
import gc

from vf.explore import Stats
from vf.common import coverage_from_stats
from vf.values import trees, same, show

import itertools

PID = "C01"
import json as _json
import os as _os
try:
    GOLDEN = _json.load(open(_os.path.join(_os.path.dirname(_os.path.dirname(_os.path.abspath(__file__))), "golden_c01.json")))
except FileNotFoundError:
    GOLDEN = {}
_FRESH = itertools.count(1001)       # numbers no earlier unit of this process has put on the wire
POSITIONS = ["arg", "kwarg", "result", "batch", "stream", "attrset", "attrget"]


def run_config(unit):
    """unit = (serializer, compression, annotations, max_nodes, slice_i, slice_n)"""
    from vf.syncworld import SyncWorld
    from vf import targets
    from Pyro5 import client, server, serializers, errors
    from Pyro5.callcontext import current_context
    sername, comp, ann, max_nodes, si, sn = unit[:6]
    bytes_repr = bool(unit[6]) if len(unit) > 6 else False
    st = Stats()
    seen = set()

    def V(fp, what, label):
        fp = "C01|%s|%s" % (sername, fp)
        if fp not in seen:
            seen.add(fp)
            st.violations.append({"fingerprint": fp, "what": "%s [serializer=%s compression=%s annotations=%s bytes_repr=%s value=%s]" % (what, sername, comp, ann, bytes_repr, label),
                                  "replay": {"unit": [sername, comp, ann, max_nodes, 0, 1, bytes_repr], "label": label}})

    class AnnDaemon(server.Daemon):
        def annotations(self):
            return {"RESP": b"r"} if ann else {}

    # the process's time zone is an environment dimension of its own (naive datetimes travel as timestamps under msgpack): half of the
    # configurations run three and a half hours east of UTC, the other half in UTC
    import os
    import time as _time
    os.environ["TZ"] = "XYZ-3:30" if ann else "UTC0"
    _time.tzset()
    gc.disable()
    w = SyncWorld(SERIALIZER=sername, COMPRESSION=comp, SERPENT_BYTES_REPR=bytes_repr)
    container_types = {}     # kind of container sent -> set of type names it arrives as (must be one per serializer: a *fixed* mapping)
    try:
        d = w.daemon(AnnDaemon)
        echo = targets.Echo()
        uri = d.register(echo, "echo")
        proxy = client.Proxy(uri)
        proxy._pyroBind()
        current_context.annotations = {"REQA": b"a"} if ann else {}
        vals = trees(max_nodes)[si::sn]

        def attempt(fn):
            try:
                return ("ok", fn())
            except Exception as x:
                return ("exc", type(x).__name__ + ":" + str(x)[:60])

        def get_result(v):
            echo.next_result = v
            return attempt(lambda: proxy.give())

        for label, v, core in vals:
            st.executions += 1
            # --- result position defines the mapping M
            m = get_result(v)
            m2 = get_result(v)
            if m[0] != m2[0] or (m[0] == "ok" and not same(m[1], m2[1])):
                V("mapping-not-a-function", "the same value sent twice as a result arrived differently: %s / %s" % (show(m), show(m2)), label)
            got = {}
            # --- positional argument
            del echo.seen[:]
            r = attempt(lambda: proxy.echo(v))
            got["arg"] = ("ok", echo.seen[0][0][0]) if (r[0] == "ok" and echo.seen) else ("exc", r[1] if r[0] == "exc" else "not-called")
            got["arg-echoed-back"] = r
            # --- keyword argument
            del echo.seen[:]
            r = attempt(lambda: proxy.echo(kw=v))
            got["kwarg"] = ("ok", echo.seen[0][1]["kw"]) if (r[0] == "ok" and echo.seen) else ("exc", r[1] if r[0] == "exc" else "not-called")
            # --- batch result
            echo.next_result = v

            def batch():
                b = client.BatchProxy(proxy)
                b.give()
                return list(b())[0]
            got["batch"] = attempt(batch)
            # --- streamed item
            echo.next_items = [v]
            got["stream"] = attempt(lambda: list(proxy.stream())[0])
            # --- attribute write / read
            del echo.seen[:]

            def setattr_():
                proxy.attr = v
            r = attempt(setattr_)
            got["attrset"] = ("ok", echo.seen[0][0][1]) if (r[0] == "ok" and echo.seen) else ("exc", r[1] if r[0] == "exc" else "not-called")
            echo.next_result = v
            got["attrget"] = attempt(lambda: proxy.attr)
            st.points += 9
            okclass = "core" if core else "ext"
            if core:
                if m[0] != "ok" or not same(m[1], v):
                    V("core-value-changed|result", "lossless-core value %s arrived as %s in position result" % (show(v), show(m)), label)
                for pos, g in got.items():
                    if g[0] != "ok" or not same(g[1], v):
                        V("core-value-changed|%s" % pos, "lossless-core value %s arrived as %s in position %s" % (show(v), show(g), pos), label)
            else:
                for pos, g in got.items():
                    if m[0] == "ok":
                        if g[0] != "ok":
                            V("position-fails-but-result-works|%s|%s" % (pos, type(v).__name__), "value %s travels as a result (-> %s) but fails as %s: %s" % (show(v), show(m[1]), pos, g[1]), label)
                        elif not same(g[1], m[1]):
                            V("mapping-differs-by-position|%s|%s" % (pos, type(v).__name__), "value %s arrives as %s as a result but as %s in position %s" % (show(v), show(m[1]), show(g[1]), pos), label)
                    elif g[0] == "ok":
                        V("result-fails-but-position-works|%s|%s" % (pos, type(v).__name__), "value %s fails as a result (%s) but arrives as %s in position %s" % (show(v), m[1], show(g[1]), pos), label)
                if m[0] == "ok":
                    mm = get_result(m[1])
                    if mm[0] != "ok" or not same(mm[1], m[1]):
                        V("mapping-not-idempotent|%s" % type(v).__name__, "M(%s)=%s but M(M(v))=%s" % (show(v), show(m[1]), show(mm)), label)
            # --- the mapping is fixed per type: what a container type turns into must not depend on what it contains,
            #     and a one-element container maps element-wise
            if m[0] == "ok" and type(v) in (list, tuple, set, frozenset, dict) and len(v) > 0:      # (serpent writes an empty set as an empty tuple: documented)
                kind = type(v).__name__ if type(v) is not dict else ("dict-str" if all(isinstance(k, str) for k in v) else "dict-other")
                container_types.setdefault(kind, {}).setdefault(type(m[1]).__name__, label)
                if len(container_types[kind]) > 1:
                    V("container-mapping-depends-on-content|%s" % kind, "%s values arrive as %r" % (kind, container_types[kind]), label)
                if type(v) in (list, tuple) and len(v) == 1 and type(m[1]) in (list, tuple) and len(m[1]) == 1:
                    inner = get_result(v[0])
                    if inner[0] == "ok" and not same(inner[1], m[1][0]):
                        V("mapping-not-elementwise|%s|%s" % (type(v).__name__, type(v[0]).__name__), "M(%s)=%s but its element alone maps to %s" % (show(v), show(m[1]), show(inner[1])), label)
            # --- the mapping of the extended atoms is the pinned tree's (golden table, vf/golden_c01.json): "fixed" also means it does not drift
            if not core and label in GOLDEN.get(sername, {}) and not bytes_repr:
                now = show(m, 200) if m[0] == "ok" else "exc:" + m[1].split(":")[0]
                if now != GOLDEN[sername][label]:
                    V("mapping-differs-from-pinned-tree|%s" % label, "%s arrives as %s; the pinned tree delivers %s" % (show(v), now, GOLDEN[sername][label]), label)
            key = "%s:%s:%s" % (okclass, m[0], type(m[1]).__name__ if m[0] == "ok" else "exc")
            st.outcomes[key] = st.outcomes.get(key, 0) + 1
            st.states.add(label)
            if len(st.samples) < 2 and not core:
                st.samples.append({"serializer": sername, "compression": comp, "annotations": ann, "value": label, "arrives_as": show(m)})
        # --- the mapping is a function of the value alone, not of what this process happened to send before: values that compare
        #     equal (and hash alike) but are written differently - Decimal("n.10"), ("n.1"), ("n.100"), ... - are sent in one order
        #     for a number n nobody has sent yet and in the opposite order for another fresh number m; up to renaming n<->m the images
        #     must agree (a memo table keyed by equality would hand out the text of whichever form came first)
        if si == 0:
            import decimal as _decimal
            n, m = next(_FRESH), next(_FRESH)
            forms = ["%d.10", "%d.1", "%d.100", "%d.1000", "-%d.0", "-%d.00"]
            for how in ("result", "arg"):
                def image(text):
                    v = _decimal.Decimal(text)
                    if how == "result":
                        return get_result(v)
                    del echo.seen[:]
                    r = attempt(lambda: proxy.echo(v))
                    return ("ok", echo.seen[0][0][0]) if (r[0] == "ok" and echo.seen) else ("exc", "failed")
                img_n = [image(f % n) for f in forms]
                img_m = [image(f % m) for f in reversed(forms)][::-1]
                st.points += 2 * len(forms)
                for f, a, b in zip(forms, img_n, img_m):
                    if show(a).replace(str(n), "#") != show(b).replace(str(m), "#"):
                        V("mapping-depends-on-what-was-sent-before|Decimal|%s" % how, "Decimal(%r) arrives as %s when sent after its equal-valued variants but Decimal(%r) as %s when sent before them"
                          % (f % n, show(a), f % m, show(b)), "Decimal-forms")
                n, m = next(_FRESH), next(_FRESH)
        # --- the serializer of a proxy may be changed while it is connected: the next call follows the newly selected serializer's
        #     mapping (what a fresh proxy using that serializer delivers), in both directions
        if si == 0:
            probes = [("tuple", (1, 2)), ("bytes", b"ab\x00"), ("set", {3}), ("text", "x")]
            for other in sorted(serializers.serializers):
                if other == sername:
                    continue
                fresh = client.Proxy(uri)
                fresh._pyroSerializer = other
                proxy._pyroSerializer = other           # the long-lived proxy, still connected from the calls above
                try:
                    for plabel, pv in probes:
                        outs = []
                        for px in (fresh, proxy):
                            del echo.seen[:]
                            r = attempt(lambda: px.echo(pv))
                            outs.append((("ok", echo.seen[0][0][0]) if (r[0] == "ok" and echo.seen) else ("exc", "failed"), r))
                        st.points += 2
                        (f_arg, f_res), (p_arg, p_res) = outs
                        if f_arg[0] != p_arg[0] or f_res[0] != p_res[0] or (f_arg[0] == "ok" and not same(f_arg[1], p_arg[1])) or (f_res[0] == "ok" and not same(f_res[1], p_res[1])):
                            V("serializer-change-on-connected-proxy-ignored|%s" % plabel, "after switching the connected proxy to %s, %s arrives as %s / returns as %s; a fresh %s proxy gives %s / %s"
                              % (other, show(pv), show(p_arg), show(p_res), other, show(f_arg), show(f_res)), "switch-to-" + other)
                finally:
                    proxy._pyroSerializer = None
                    fresh._pyroRelease()
        # --- serializer-level pairs on the same values (cheap): loadsCall(dumpsCall()) vs loads(dumps())
        ser = serializers.serializers[sername]
        for label, v, core in vals:
            a = attempt(lambda: ser.loadsCall(ser.dumpsCall("o", "m", (v,), {"kw": v})))
            r = attempt(lambda: ser.loads(ser.dumps(v)))
            st.points += 2
            if a[0] == "ok" and r[0] == "ok":
                _, _, va, kw = a[1]
                if not same(va[0], r[1]) or not same(kw["kw"], r[1]):
                    V("serializer-pair-asymmetric|%s" % type(v).__name__, "loadsCall(dumpsCall(%s)) gives %s / %s, loads(dumps()) gives %s" % (show(v), show(va[0]), show(kw["kw"]), show(r[1])), label)
            elif a[0] != r[0]:
                V("serializer-pair-asymmetric-failure|%s" % type(v).__name__, "call path %s, result path %s for %s" % (show(a), show(r), show(v)), label)
        current_context.annotations = {}
        proxy._pyroRelease()
        if w.net.pump_errors:
            V("daemon-loop-error", "daemon event handler raised %r" % w.net.pump_errors[:2], "-")
    finally:
        current_context.annotations = {}
        w.close()
        gc.enable()
        gc.collect()
    return st


# ------------------------------------------------------------------------------------------------------------
# schedules: serializer objects are shared by all threads of a process ("must be thread safe"): two threads that
# serialise / deserialise at the same time must each get the bytes / value of their own call
THREAD_VALUES = {
    "A": [{1, 2}, 2 ** 70, {"k": (1, 2)}],
    "B": ["text", complex(1, 2), [3.5, None]],
}


def make_sched_run(cfg):
    from vf import sched as S
    from vf.common import install_shims
    from vf.explore import HarnessError
    install_shims()
    from Pyro5 import serializers, config
    import uuid as _uuid
    import decimal as _decimal
    vals = {"A": THREAD_VALUES["A"] + [_uuid.UUID(int=5)], "B": THREAD_VALUES["B"] + [_decimal.Decimal("2.50")]}
    ser = serializers.serializers[cfg["ser"]]
    watch = S.watch_functions(serializers.SerializerBase, type(ser), follow=True)
    op = cfg["op"]

    def do(v):
        if op == "dumps":
            return bytes(ser.dumps(v))
        if op == "dumpsCall":
            return bytes(ser.dumpsCall("obj", "meth", (v,), {"kw": v}))
        if op == "roundtrip":
            return ser.loads(ser.dumps(v))
        if op == "roundtripCall":
            return ser.loadsCall(ser.dumpsCall("obj", "meth", (v,), {"kw": v}))
    expected = {}
    for t in ("A", "B"):
        expected[t] = []
        for v in vals[t]:
            try:
                expected[t].append(("ok", do(v)))
            except Exception as x:
                expected[t].append(("exc", type(x).__name__))

    def run_fn(chooser):
        config.reset(False)
        sch = S.Scheduler(chooser, watch=watch)
        sch.install()
        got = {"A": [], "B": []}
        violations = []
        try:
            def body(t):
                def f():
                    for v in vals[t][cfg["i"]:cfg["i"] + 1]:
                        try:
                            got[t].append(("ok", do(v)))
                        except S.AbortExecution:
                            raise
                        except Exception as x:
                            got[t].append(("exc", type(x).__name__))
                return f
            sch.spawn(body("A"), "ser-A")
            sch.spawn(body("B"), "ser-B")
            outcome = sch.run()
            if outcome != "quiescent":
                raise HarnessError("serializer schedule ended with %s" % outcome)
            for t in ("A", "B"):
                want = expected[t][cfg["i"]:cfg["i"] + 1]
                ok = len(got[t]) == len(want) and all(g[0] == w[0] and (same(g[1], w[1]) if g[0] == "ok" else g[1] == w[1]) for g, w in zip(got[t], want))
                if not ok:
                    violations.append({"fingerprint": "C01|%s|concurrent-%s-gives-another-threads-data" % (cfg["ser"], op),
                                       "what": "thread %s got %s, alone it gets %s [cfg=%s]" % (t, show(got[t], 200), show(want, 200), cfg), "replay": {"sched_cfg": cfg}})
            return {"outcome": repr((outcome, [g[0] for g in got["A"]], [g[0] for g in got["B"]], not violations)), "violations": violations,
                    "sample": {"cfg": cfg, "points": len(chooser.points)}}
        finally:
            sch.teardown()
    return run_fn


def sched_task(unit):
    from vf.common import run_unit
    return run_unit(make_sched_run, unit)


def run(ctx):
    max_nodes = 3 if ctx.quick else 4
    units = []
    from Pyro5 import serializers
    for sername in sorted(serializers.serializers):
        for comp in (False, True):
            for ann in (False, True):
                n = 4 if ctx.quick else 12
                for i in range(n):
                    units.append((sername, comp, ann, max_nodes, i, n))
    for i in range(2):
        units.append(("serpent", False, False, max_nodes, i, 2, True))     # SERPENT_BYTES_REPR on: bytes travel as bytes, in every position
    total = Stats()
    for st in ctx.pmap(run_config, units):
        total.merge(st)
    # --- thread-safety of the shared serializer objects (engine T)
    from vf.common import explore_parallel
    scfgs = [{"ser": sn_, "op": op, "i": i, "p": 2 if (ctx.quick or op.startswith("roundtrip")) else 3, "horizon": 3000}
             for sn_ in sorted(serializers.serializers) for op in ("dumps", "dumpsCall", "roundtrip", "roundtripCall") for i in range(4)]
    sstats = explore_parallel(ctx, sched_task, scfgs, lambda c: c["p"], lambda c: 10 ** 6)
    total.violations.extend(sstats.violations)
    total.extra["serializer_schedules_explored"] = sstats.executions
    total.extra["serializer_schedule_points"] = sstats.points
    total.extra["serializer_schedule_outcomes"] = len(sstats.outcomes)
    nvals = len(trees(max_nodes))
    cov = coverage_from_stats(
        total,
        rule="every value tree up to %d nodes (%d trees: %d core atoms incl. ints beyond 64 bit, non-finite floats, unicode, strings around the compression threshold; "
             "10 extended atoms; list/dict/tuple/set/frozenset/int-key-dict containers) x 4 serializers x compression off/on x request+response annotations absent/"
             "present, each sent through positional argument, keyword argument, result, batch result, streamed item, attribute write and attribute read on a real "
             "Proxy/Daemon pair; result position defines the mapping M, all other positions must agree, M must be idempotent and deterministic, core values exact; "
             "additionally every schedule (line granularity inside serializers.py, preemption bound 2/3) of two threads serialising/deserialising different values with "
             "the shared serializer objects must give each thread its own data; distinct = distinct value trees" % (max_nodes, nvals, 32),
        nontrivial=len(total.states))
    return {"violations": total.violations, "coverage": cov,
            "assumptions": ["transport is the in-memory socket pair with faithful delivery; the daemon's real multiplex event handler is pumped synchronously",
                            "equality is type-strict (bool/int, list/tuple, nan, signed zero)"]}


def replay(ctx, payload):
    if "sched_cfg" in payload["replay"]:
        from vf.explore import Chooser
        run_fn = make_sched_run(payload["replay"]["sched_cfg"])
        res = run_fn(Chooser([tuple(c) for c in payload["choices"]]))
        return {"violations": res["violations"]}
    u = payload["replay"]["unit"]
    st = run_config(tuple(u))
    return {"violations": [v for v in st.violations if v["fingerprint"] == payload["fingerprint"]], "all": sorted(v["fingerprint"] for v in st.violations)}
