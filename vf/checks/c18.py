"""
C18 - thread pool: each job served once or refused; workers bounded; close is clean.
Engine T at source-line granularity inside svr_threads.Pool / Worker (real classes, real threads).
"""
from vf import sched as S
from vf.common import install_shims, reset_worker_counter, coverage_from_stats, explore_parallel, run_unit, FormattingLogSink
from vf.explore import Chooser, HarnessError

PID = "C18"

# acceptor scripts: list of steps. ('s', j, kind) submit job j; ('r', j) release long job j;
# ('w', j) wait until job j has finished; ('i',) wait until no worker is marked busy; ('c',) close the pool.
# job kinds: short, long (runs until released), raises (ends with an exception, which Worker.run is written to survive)
SCRIPTS = {
    "two-short-close": [("s", 0, "short"), ("s", 1, "short"), ("c",)],
    "short-wait-short-close": [("s", 0, "short"), ("w", 0), ("s", 1, "short"), ("w", 1), ("c",)],
    "long-short-release-close": [("s", 0, "long"), ("s", 1, "short"), ("r", 0), ("c",)],
    "long-long-release-short-close": [("s", 0, "long"), ("s", 1, "long"), ("r", 0), ("s", 2, "short"), ("r", 1), ("c",)],
    "three-short-wait-close": [("s", 0, "short"), ("s", 1, "short"), ("s", 2, "short"), ("w", 0), ("w", 1), ("w", 2), ("c",)],
    "short-wait-short-wait-short-close": [("s", 0, "short"), ("w", 0), ("s", 1, "short"), ("w", 1), ("s", 2, "short"), ("c",)],
    "long-release-wait-short-short-close": [("s", 0, "long"), ("r", 0), ("w", 0), ("s", 1, "short"), ("s", 2, "short"), ("w", 1), ("c",)],
    "four-short-close": [("s", 0, "short"), ("s", 1, "short"), ("s", 2, "short"), ("s", 3, "short"), ("c",)],
    # close issued by a second thread (daemon.shutdown() from elsewhere) while the accept thread keeps submitting
    "short-forkclose-short": [("s", 0, "short"), ("fc",), ("s", 1, "short")],
    "long-forkclose-short-release": [("s", 0, "long"), ("fc",), ("s", 1, "short"), ("r", 0)],
    "forkclose-short-short": [("fc",), ("s", 0, "short"), ("s", 1, "short")],
    "raise-idle-short-close": [("s", 0, "raises"), ("w", 0), ("i",), ("s", 1, "short"), ("w", 1), ("c",)],
    "raise-short-idle-close": [("s", 0, "raises"), ("s", 1, "short"), ("w", 0), ("w", 1), ("i",), ("c",)],
    "long-raise-release-idle-close": [("s", 0, "long"), ("s", 1, "raises"), ("r", 0), ("w", 0), ("w", 1), ("i",), ("c",)],
    # a job that ends its worker thread (SystemExit out of a remote method): the slot is free again, later jobs are served
    "exit-idle-short-close": [("s", 0, "exits"), ("w", 0), ("i",), ("s", 1, "short"), ("w", 1), ("c",)],
    "exit-exit-idle-short-short-close": [("s", 0, "exits"), ("s", 1, "exits"), ("w", 0), ("w", 1), ("i",), ("s", 2, "short"), ("s", 3, "short"), ("w", 2), ("w", 3), ("c",)],
    "long-exit-short-release-close": [("s", 0, "long"), ("s", 1, "exits"), ("w", 1), ("i1",), ("s", 2, "short"), ("w", 2), ("r", 0), ("c",)],
    # a job that is still running when the pool is closed and then ends its worker thread
    "longexit-close": [("s", 0, "long-exits"), ("c",)],
    "longexit-forkclose-release": [("s", 0, "long-exits"), ("fc",), ("r", 0)],
    "longexit-short-forkclose-release": [("s", 0, "long-exits"), ("s", 1, "short"), ("fc",), ("r", 0)],
    # the system refuses to start another thread when the pool wants to grow (scripts run with fail_start)
    "long-short-short-release-close": [("s", 0, "long"), ("s", 1, "short"), ("s", 2, "short"), ("w", 2), ("r", 0), ("c",)],
}


def make_run(cfg):
    install_shims()
    from Pyro5 import config, svr_threads
    watch = S.watch_functions(svr_threads.Pool, svr_threads.Worker, follow=True)
    script = SCRIPTS[cfg["script"]]
    MIN, MAX = cfg["min"], cfg["max"]

    def run_fn(chooser):
        config.reset(False)
        config.THREADPOOL_SIZE = MAX
        config.THREADPOOL_SIZE_MIN = MIN
        reset_worker_counter()
        sch = S.Scheduler(chooser, watch=watch)
        sch.fail_starts = tuple(cfg.get("fail_start", ()))
        logsink = FormattingLogSink() if cfg.get("logging") else None
        if logsink is not None:
            logsink.__enter__()
        sch.install()
        log = []          # (event, job)
        state = {"pool": None, "closed_returned": False, "close_started": False, "max_count": 0,
                 "overlap": False, "acceptor_error": None, "max_live": 0}
        started = {}
        finished = {}
        release = {}
        done_evt = {}
        occupying = set()   # jobs handed to a worker whose worker has not yet returned from notify_done
        exiting = set()     # jobs that end their worker thread; they occupy it until that thread is gone
        worker_of = {}

        def occupied():
            n = 0
            for j in occupying:
                if j in exiting:
                    ts = [t for t in sch.threads if t.thread is worker_of.get(j)]
                    if ts and ts[0].status == S.DONE:
                        continue
                n += 1
            return n
        refusals = []

        def make_job(j, kind):
            release[j] = S.CoopEvent()
            done_evt[j] = S.CoopEvent()

            def job():
                started[j] = started.get(j, 0) + 1
                if state["closed_returned"]:
                    log.append(("started-after-close", j))
                if kind in ("long", "long-exits"):
                    release[j].wait()
                finished[j] = finished.get(j, 0) + 1
                done_evt[j].flag = True
                if kind == "raises":
                    raise RuntimeError("job %d ends with an exception" % j)
                if kind in ("exits", "long-exits"):
                    exiting.add(j)
                    raise SystemExit(0)
            job.j = j
            return job

        orig_notify = svr_threads.Pool.notify_done

        def acceptor():
            pool = svr_threads.Pool()
            state["pool"] = pool
            for step in script:
                if step[0] == "s":
                    j = step[1]
                    job = make_job(j, step[2])
                    # workers genuinely occupied = jobs handed out whose worker did not complete notify_done yet.
                    # Only this thread adds to the set, so its size at the start of process() is the maximum over
                    # the duration of the call: a refusal is justified iff that maximum reached MAX.
                    occ_at_call = occupied()
                    try:
                        occupying.add(j)
                        pool.process(job)
                        log.append(("accepted", j))
                    except svr_threads.NoFreeWorkersError:
                        occupying.discard(j)
                        refusals.append((j, occ_at_call))
                        log.append(("refused", j))
                    except RuntimeError as x:
                        if "can't start new thread" not in str(x):
                            raise
                        occupying.discard(j)
                        log.append(("start-failed", j))       # nothing was accepted, nothing may remain of the attempt
                    except svr_threads.PoolError:
                        occupying.discard(j)
                        log.append(("pool-closed", j))
                        if not state["close_started"]:
                            log.append(("closed-error-before-close", j))
                elif step[0] == "r":
                    release[step[1]].set()
                elif step[0] == "w":
                    if step[1] in done_evt and ("accepted", step[1]) in log:
                        state["waiting_for"] = step[1]
                        done_evt[step[1]].wait()
                        state["waiting_for"] = None
                elif step[0] in ("i", "i1"):
                    state["waiting_idle"] = True
                    limit = 0 if step[0] == "i" else 1
                    sch.block(lambda: len(pool.busy) <= limit, what="at most %d busy workers" % limit)
                    state["waiting_idle"] = False
                elif step[0] == "c":
                    for ev in release.values():
                        ev.flag = True     # nothing may stay blocked for ever by the harness' own doing
                    state["close_started"] = True
                    pool.close()
                    state["closed_returned"] = True
                elif step[0] == "fc":
                    def closer():
                        state["close_started"] = True
                        pool.close()
                        state["closed_returned"] = True
                    sch.spawn(closer, "closer", role="driver")
            for ev in release.values():
                ev.flag = True

        def notify_wrapper(self, worker):
            j = getattr(worker, "_vf_job", None)
            try:
                return orig_notify(self, worker)
            finally:
                occupying.discard(j)

        orig_process = svr_threads.Worker.process

        def wprocess(self, job):
            if job is not None:
                self._vf_job = job.j
                worker_of[job.j] = self
            return orig_process(self, job)

        def on_point(s):
            pool = state["pool"]
            if pool is not None and not state["close_started"]:
                n = len(pool.idle) + len(pool.busy)
                if n > state["max_count"]:
                    state["max_count"] = n
                if pool.idle & pool.busy:
                    state["overlap"] = True

        svr_threads.Pool.notify_done = notify_wrapper
        svr_threads.Worker.process = wprocess
        sch.on_point = on_point
        violations = []
        try:
            sch.spawn(acceptor, "acceptor", role="driver")
            outcome = sch.run()
            # ---- oracle (evaluated at quiescence / deadlock, before teardown)
            workers = [t for t in sch.threads if t.name.startswith("Pyro-Worker")]
            alive = [t for t in workers if t.status != S.DONE]

            def V(fp, what):
                violations.append({"fingerprint": "C18|%s" % fp, "what": "%s [cfg=%s]" % (what, cfg),
                                   "replay": {"cfg": cfg}})
            if outcome == "deadlock":
                if state.get("waiting_idle"):
                    V("worker-busy-after-job-ended", "all jobs have ended but the pool still counts a worker as busy: %r busy, %r"
                      % (len(state["pool"].busy), [repr(t) for t in sch.threads]))
                elif state.get("waiting_for") is not None:
                    V("job-never-served", "accepted job %d is never run to completion although the pool was not closed: %r"
                      % (state["waiting_for"], [repr(t) for t in sch.threads]))
                else:
                    V("deadlock", "acceptor never finished: %r" % [repr(t) for t in sch.threads])
            elif outcome in ("hang", "horizon"):
                raise HarnessError("execution did not terminate: %s" % outcome)
            for name, x in sch.errors:
                if isinstance(x, SystemExit) and name.startswith("Pyro-Worker") and exiting:
                    continue       # that job's way of ending
                V("uncaught-%s-in-%s" % (type(x).__name__, "worker" if name.startswith("Pyro-Worker") else name),
                  "uncaught %r in thread %s" % (x, name))
            accepted = [j for (e, j) in log if e == "accepted"]
            for j in accepted:
                n = started.get(j, 0)
                if n > 1:
                    V("job-run-twice", "job %d started %d times" % (j, n))
                # a job that never started is tolerated only because close() began before it could start ("starts no
                # further job"); without close the acceptor's wait step turns a lost job into 'job-never-served'.
            for (e, j) in log:
                if e == "closed-error-before-close":
                    V("closed-error-before-close", "job %d was refused as 'closed' before close() was called" % j)
                if e == "started-after-close":
                    V("job-started-after-close", "job %d started after close() returned" % j)
            for j, occ in refusals:
                if occ < MAX:
                    V("refused-while-free", "job %d refused while only %d of %d workers were occupied" % (j, occ, MAX))
            if state["max_count"] > MAX:
                V("too-many-workers", "len(idle)+len(busy) reached %d > THREADPOOL_SIZE %d" % (state["max_count"], MAX))
            if state["overlap"]:
                V("idle-busy-overlap", "a worker was in idle and busy at once")
            pool = state["pool"]
            if pool is not None and outcome == "quiescent":
                known = {t.thread for t in sch.threads}
                ghosts = [w for w in (pool.idle | pool.busy) if w not in known]
                if ghosts:
                    V("pool-counts-a-worker-that-never-started", "%d of the workers the pool counts have no thread: idle=%d busy=%d" % (len(ghosts), len(pool.idle), len(pool.busy)))
            if outcome == "quiescent" and state["closed_returned"] and alive:
                V("worker-survives-close", "%d worker thread(s) parked for ever after close(): %r" % (len(alive), alive))
            oc = (outcome, tuple(sorted(started.items())), tuple(e for e in log), len(alive), state["max_count"],
                  tuple(sorted(type(x).__name__ for _, x in sch.errors)))
            res = {"outcome": repr(oc), "violations": violations,
                   "sample": {"cfg": cfg, "choices": [c for c, _, _ in chooser.choices() if True][:40], "log": log[:12],
                              "outcome": outcome}}
        finally:
            svr_threads.Pool.notify_done = orig_notify
            svr_threads.Worker.process = orig_process
            sch.teardown()
            if logsink is not None:
                logsink.__exit__()
        return res
    return run_fn


# ------------------------------------------------------------------------------------------------------------
# whole system: the real thread-pool server with every worker occupied; what does the next peer get?
SYS_FIRSTS = ["connect-serpent", "connect-json", "connect-marshal", "connect-msgpack", "connect-serializer-99", "connect-serializer-0", "connect-garbage-payload",
              "connect-empty-payload", "connect-corr-id", "ping", "invoke"]


def make_sys_run(cfg):
    from vf.schedworld import SchedWorld
    from vf import targets
    from Pyro5 import client, errors, protocol, serializers, socketutil
    import uuid as _uuid
    first = cfg["first"]

    def msg(mtype, flags, seq, serid, payload, **kw):
        return bytes(protocol.SendingMessage(mtype, flags, seq, serid, payload, **kw).data)

    def first_bytes():
        ok = {"handshake": "hello", "object": "obj"}
        serp = serializers.serializers["serpent"]
        if first in ("connect-serpent", "connect-json", "connect-marshal", "connect-msgpack"):
            ser = serializers.serializers[first[8:]]
            return msg(protocol.MSG_CONNECT, 0, 1, ser.serializer_id, ser.dumps(ok))
        return {
            "connect-serializer-99": lambda: msg(protocol.MSG_CONNECT, 0, 1, 99, serp.dumps(ok)),
            "connect-serializer-0": lambda: msg(protocol.MSG_CONNECT, 0, 1, 0, serp.dumps(ok)),
            "connect-garbage-payload": lambda: msg(protocol.MSG_CONNECT, 0, 1, 1, b"\xff\x00 no serpent"),
            "connect-empty-payload": lambda: msg(protocol.MSG_CONNECT, 0, 1, 1, b""),
            "connect-corr-id": lambda: msg(protocol.MSG_CONNECT, 0, 1, 1, serp.dumps(ok), corr_id=_uuid.UUID(int=7).bytes) if False else msg(protocol.MSG_CONNECT, 0, 1, 1, serp.dumps(ok)),
            "ping": lambda: msg(protocol.MSG_PING, 0, 1, 42, b"ping"),
            "invoke": lambda: msg(protocol.MSG_INVOKE, 0, 1, 1, serp.dumpsCall("obj", "hit", ("x",), {})),
        }[first]()

    def run_fn(chooser):
        w = SchedWorld(chooser, servertype="thread", allow_ticks=False, max_idle_wakes=20, THREADPOOL_SIZE=cfg["size"], THREADPOOL_SIZE_MIN=1,
                       COMMTIMEOUT=float(cfg.get("commtimeout", 0.0)))
        violations = []
        try:
            d = w.daemon()
            tgt = targets.LogTarget()
            d.register(tgt, "obj")
            w.serve(d)
            got = {"replies": [], "eof": False, "error": None, "holders": []}
            attacker_done = S.CoopEvent()
            holding = [S.CoopEvent() for _ in range(cfg["size"])]

            gate = S.CoopEvent()
            targets.LogTarget.gate = gate if cfg.get("commtimeout") else None

            def gate_opener():
                attacker_done.wait()
                gate.flag = True

            def holder(i):
                def body():
                    try:
                        with client.Proxy("PYRO:obj@h:1") as p:
                            if cfg.get("commtimeout"):
                                # with a communication timeout an idle connection would be dropped: the holder keeps its worker inside a method
                                p._pyroTimeout = None
                                holding[i].flag = True
                                r = "hold-%d" % i
                                r2 = "after-%d" % i if p.blocked("x") == "x" else "wrong"
                            else:
                                r = p.token("hold-%d" % i)
                                holding[i].flag = True
                                attacker_done.wait()
                                r2 = p.token("after-%d" % i)
                        got["holders"].append((i, r, r2))
                    except S.AbortExecution:
                        raise
                    except Exception as x:
                        holding[i].flag = True
                        got["holders"].append((i, "exc", repr(x)))
                return body

            def attacker():
                for h in holding:
                    h.wait()
                if cfg.get("commtimeout"):
                    w.sch.block(lambda: len(d.transportServer.pool.busy) >= cfg["size"] and len([e for e in tgt.log if e[0] == "blocked"]) >= cfg["size"], what="holders inside their methods")
                silent = None
                try:
                    if cfg.get("silent_peer_first"):
                        # a peer that connects and says nothing sits in front of this one (a communication timeout is configured: the
                        # daemon gives up on it after that long, it may not keep everybody else waiting for ever)
                        silent = w.net.create_socket(connect=("h", 1))
                    sock = w.net.create_socket(connect=("h", 1))
                    conn = socketutil.SocketConnection(sock)
                    try:
                        try:
                            sock.sendall(first_bytes())
                        except OSError as x:
                            got["error"] = "send:" + type(x).__name__
                        # (virtual timeouts carry no durations: with a server-side timeout in play the judged peer waits without one of
                        #  its own, so that only the daemon's can run out; a daemon that never answers then shows as a deadlock)
                        sock.settimeout(None if cfg.get("commtimeout") else 3.0)
                        for _ in range(4):
                            try:
                                m = protocol.recv_stub(conn)
                                got["replies"].append((m.type, m.flags, bytes(m.data), m.serializer_id))
                            except errors.ConnectionClosedError:
                                got["eof"] = True
                                break
                            except errors.TimeoutError:
                                got["error"] = "timeout"
                                break
                            except Exception as x:
                                got["error"] = "recv:" + type(x).__name__
                                break
                    finally:
                        conn.close()
                        if silent is not None:
                            silent.close()
                finally:
                    attacker_done.flag = True
            for i in range(cfg["size"]):
                w.client(holder(i), "holder-%d" % i)
            w.client(attacker, "attacker")
            if cfg.get("commtimeout"):
                w.client(gate_opener, "gate-opener")
            outcome = w.run()

            def V(fp, what):
                violations.append({"fingerprint": "C18|" + fp, "what": "%s [cfg=%s]" % (what, cfg), "replay": {"sys_cfg": cfg}})
            if outcome == "deadlock":
                V("full-pool|peer-left-waiting|%s" % first, "%r" % w.sch.threads)
            elif outcome != "quiescent":
                raise HarnessError("C18 system part ended with %s" % outcome)
            if w.loop_errors:
                V("full-pool|accept-loop-died|%s" % type(w.loop_errors[0][1]).__name__, "%r" % w.loop_errors)
            types = [r[0] for r in got["replies"]]
            wellformed = first.startswith("connect")
            if got["error"] == "timeout":
                V("full-pool|peer-left-waiting|%s" % first, "the peer got nothing within its timeout: replies %r" % (types,))
            elif types[:1] != [protocol.MSG_CONNECTFAIL]:
                if wellformed:
                    V("full-pool|dropped-without-connect-failure|%s" % first, "first thing the peer read: %r (eof %r, error %r)" % (types[:1], got["eof"], got["error"]))
            else:
                ser = serializers.serializers_by_id.get(got["replies"][0][3])
                try:
                    text = str(ser.loads(got["replies"][0][2]))
                except Exception as x:
                    text = "<undecodable %r>" % x
                if wellformed and "worker" not in text.lower():
                    V("full-pool|connect-failure-does-not-say-so|%s" % first, "reason %r" % text)
            if protocol.MSG_CONNECTOK in types or protocol.MSG_RESULT in types:
                V("full-pool|peer-served-beyond-pool-size|%s" % first, "replies %r" % (types,))
            if [e for e in tgt.log if e[0] == "hit"]:
                V("full-pool|method-executed-for-refused-peer", "%r" % tgt.log)
            for hrec in got["holders"]:
                if hrec[1] == "exc" or hrec[1] != "hold-%d" % hrec[0] or hrec[2] != "after-%d" % hrec[0]:
                    V("full-pool|connected-client-disturbed", "%r" % (hrec,))
            if len(got["holders"]) != cfg["size"]:
                V("full-pool|connected-client-disturbed", "holders %r" % (got["holders"],))
            obs = (first, outcome, tuple(types), got["eof"], got["error"], len(got["holders"]))
            return {"outcome": repr(obs), "violations": violations, "sample": {"cfg": cfg, "replies": types}}
        finally:
            targets.LogTarget.gate = None
            w.close()
    return run_fn


def sys_task(unit):
    return run_unit(make_sys_run, unit)


def sys_configs(quick):
    out = []
    for size in ((1,) if quick else (1, 2)):
        for first in SYS_FIRSTS:
            out.append({"first": first, "size": size, "p": 1 if (quick or size == 2) else 2, "r": 1, "horizon": 4000})
    # a communication timeout is configured, every worker is *inside a method*, and a peer that says nothing sits in front of the one judged
    for first in ("connect-serpent", "ping"):
        out.append({"first": first, "size": 1, "commtimeout": 2.0, "silent_peer_first": True, "p": 1, "r": 1, "horizon": 4000})
        out.append({"first": first, "size": 1, "commtimeout": 2.0, "p": 1, "r": 1, "horizon": 4000})
    return out


def task(unit):
    return run_unit(make_run, unit)


def configs(tier):
    out = []
    sizes = [(1, 1), (1, 2), (2, 2), (1, 3), (2, 3)]
    for (mn, mx) in sizes:
        for name in SCRIPTS:
            njobs = sum(1 for s in SCRIPTS[name] if s[0] == "s")
            fork = any(s[0] == "fc" for s in SCRIPTS[name])
            if tier == "quick":
                if mx == 3 and (njobs >= 4 or fork):
                    continue
                # (p, r) budgets: preemptions / free reorderings (DESIGN.md 2.1)
                budgets = [(1, 2)]
                if mx == 1:
                    budgets = [(2, 2)]
                elif mx == 2 and mn == 1 and njobs <= 2 and not fork:
                    budgets = [(2, 1)]
            else:
                budgets = [(2, 3)]
                if mx == 1:
                    budgets = [(3, 3)]
                elif mx == 3 and (njobs >= 4 or fork):
                    budgets = [(1, 3)]
                if name.startswith(("exit-", "longexit-", "long-exit-")) or name == "long-short-short-release-close":
                    # the scripts of rounds 4-6 (jobs that end their worker, failing thread starts): with the full thorough budgets the
                    # tier did not finish within 25 minutes; they run with two preemptions (one for the three-worker pools)
                    budgets = [(2, 2)] if mx <= 2 else [(1, 2)]
            for (p, r) in budgets:
                out.append({"script": name, "min": mn, "max": mx, "p": p, "r": r, "horizon": 3000})
                if name in ("long-long-release-short-close", "long-short-release-close") and mx <= 2 and mn == 1:
                    # the same with debug logging switched on (every log call's arguments are formatted while the pool's locks are held)
                    out.append({"script": name, "min": mn, "max": mx, "p": min(p, 1), "r": r, "horizon": 3000, "logging": True})
                if name == "long-short-short-release-close" and mx > mn:
                    # the first Thread.start() by which the pool wants to grow fails (start 1 is the accept thread, then the MIN initial workers)
                    out.append({"script": name, "min": mn, "max": mx, "p": p, "r": r, "horizon": 3000, "fail_start": [mn + 2]})
    return out


def run(ctx):
    cfgs = configs(ctx.tier)
    stats = explore_parallel(ctx, task, cfgs, lambda c: c["p"], lambda c: c["r"])
    scfgs = sys_configs(ctx.quick)
    sst = explore_parallel(ctx, sys_task, scfgs, lambda c: c["p"], lambda c: c["r"])
    stats.merge(sst)
    cov = coverage_from_stats(
        stats,
        rule="every schedule (source-line granularity in Pool/Worker, real threads under a baton scheduler) of the accept "
             "thread running a submit/release/wait/close script against workers, for (MIN,MAX) in 5 pool sizes and %d scripts, "
             "preemption bound p and free-reordering bound r per config (listed under budgets); distinct = distinct observation vectors "
             "(job start counts, log, surviving workers, max worker count, errors); plus the real thread-pool server with all THREADPOOL_SIZE (1-2) workers "
             "occupied by connected clients and a further peer whose first message is one of %d kinds (CONNECT in each serializer, unknown / zero serializer id, undecodable or "
             "empty payload, PING, INVOKE): under all message-level interleavings within the budget it must read a connect-failure that mentions the workers, then end of "
             "stream, while the connected clients keep being served" % (len(SCRIPTS), len(SYS_FIRSTS)),
        extra={"configs": len(cfgs), "budgets_p_r": sorted({(c["p"], c["r"]) for c in cfgs})})
    return {"violations": stats.violations, "coverage": cov,
            "assumptions": ["interleavings at source-line granularity inside svr_threads.Pool/Worker; code outside runs atomically",
                            "blocking is modelled by cooperative Lock/Event replacements"]}


def replay(ctx, payload):
    if "sys_cfg" in payload["replay"]:
        res = make_sys_run(payload["replay"]["sys_cfg"])(Chooser([tuple(c) for c in payload["choices"]]))
        return {"outcome": res["outcome"], "violations": res["violations"]}
    cfg = payload["replay"]["cfg"]
    run_fn = make_run(cfg)
    ch = Chooser([tuple(c) for c in payload["choices"]])
    res = run_fn(ch)
    ch2 = Chooser([tuple(c) for c in payload["choices"]])
    res2 = run_fn(ch2)
    if res["outcome"] != res2["outcome"]:
        raise HarnessError("replay is not deterministic")
    return {"outcome": res["outcome"], "violations": res["violations"]}
