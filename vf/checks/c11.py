"""
C11 - a batch behaves like the same calls made one after another.
Engine S: every call sequence up to a length over a small alphabet, executed as a batch, as a oneway batch and
call-by-call on identical fresh objects behind the real Proxy/Daemon pair; differential oracle (no expected values).
"""
import gc
import itertools

from vf.explore import Stats
from vf.common import coverage_from_stats
from vf.values import same, show

PID = "C11"

ALPHABET = [
    ("add1", "add", (1,), {}),
    ("add_kw", "add", (), {"x": 5}),
    ("append", "append", ("it",), {"twice": True}),
    ("get", "get", (), {}),
    ("nothing", "nothing", (), {}),
    ("tags", "tags", (), {}),
    ("seal", "seal", (), {}),
    ("fail_value", "fail", ("value",), {}),
    ("fail_key", "fail", (), {"kind": "key"}),
    ("fail_pyro_timeout", "fail", ("pyro-timeout",), {}),
    ("fail_bytes", "fail", ("bytes",), {}),
    ("fail_decimal", "fail", ("decimal",), {}),
    ("fail_registered", "fail", ("registered",), {}),
    ("report", "report", (), {}),
    ("unexposed", "unexposed", (), {}),
    ("private", "_private", (), {}),
    ("missing", "no_such_method", (1,), {}),
    ("badargs", "add", (1, 2, 3), {}),
]


def exc_sig(x):
    return (type(x).__name__, tuple(repr(a) for a in getattr(x, "args", ())))


def run_config(unit):
    from vf.syncworld import SyncWorld
    from vf import targets
    from Pyro5 import client, errors
    sername, maxlen, si, sn = unit[:4]
    client_ser = unit[4] if len(unit) > 4 else None       # the client may speak another serializer than the daemon's configured one
    st = Stats()
    seen = set()

    def V(fp, what, seq):
        fp = "C11|" + fp
        if fp not in seen:
            seen.add(fp)
            st.violations.append({"fingerprint": fp, "what": "%s [serializer=%s client-serializer=%s sequence=%s]" % (what, sername, client_ser or sername, [s[0] for s in seq]),
                                  "replay": {"unit": [sername, maxlen, 0, 1, client_ser], "sequence": [s[0] for s in seq]}})
    gc.disable()
    w = SyncWorld(SERIALIZER=sername)
    targets.register_converters(True)
    try:
        d = w.daemon()
        proxies = {}
        for oid in ("s", "b", "o"):
            d.register(targets.Accum(), oid)
            proxies[oid] = client.Proxy("PYRO:%s@h:1" % oid)
            if client_ser:
                proxies[oid]._pyroSerializer = client_ser
            proxies[oid]._pyroBind()
        seqs = []
        for L in range(0, maxlen + 1):
            seqs.extend(itertools.product(ALPHABET, repeat=L))
        for seq in seqs[si::sn]:
            st.executions += 1
            objs = {}
            for oid in ("s", "b", "o"):
                d.unregister(oid)
                objs[oid] = targets.Accum()
                d.register(objs[oid], oid)
            # ---- sequential run (through the wire, past the client-side name check)
            seq_results = []
            seq_exc = None
            for name, meth, args, kw in seq:
                try:
                    seq_results.append(proxies["s"]._pyroInvoke(meth, args, kw))
                except errors.CommunicationError as x:
                    if not (name == "fail_pyro_timeout" and isinstance(x, errors.TimeoutError) and x.args == ("nested call timed out",)):
                        V("sequential-call-communication-error|%s" % type(x).__name__, "%r" % x, seq)
                    seq_exc = x
                    break
                except Exception as x:
                    seq_exc = x
                    break
            # ---- batch run
            b = client.BatchProxy(proxies["b"])
            for name, meth, args, kw in seq:
                getattr(b, meth)(*args, **kw)
            bat_results = []
            bat_exc = None
            submitted = False
            log_at_submission = None
            try:
                gen = b()
                submitted = True
                log_at_submission = list(objs["b"].log)
                for r in gen:
                    bat_results.append(r)
            except Exception as x:
                bat_exc = x
            # ---- oneway batch run
            ob = client.BatchProxy(proxies["o"])
            for name, meth, args, kw in seq:
                getattr(ob, meth)(*args, **kw)
            one_ret = "unset"
            one_exc = None
            try:
                one_ret = ob(oneway=True)
            except Exception as x:
                one_exc = x
            st.points += 3 * len(seq) + 5
            # ---- compare
            # the statement allows the failure to surface "when the batch is submitted"; earlier results cannot be delivered then
            if not submitted and bat_exc is not None and seq_exc is not None:
                st.outcomes["failure-on-submission"] = st.outcomes.get("failure-on-submission", 0) + 1
            elif len(bat_results) != len(seq_results) or not all(same(a, c) for a, c in zip(bat_results, seq_results)):
                V("batch-results-differ", "batch yielded %s, the calls one by one %s" % (show(bat_results), show(seq_results)), seq)
            if (seq_exc is None) != (bat_exc is None):
                V("batch-failure-differs|%s" % ("missing" if bat_exc is None else "spurious"), "sequential failure %r, batch failure %r" % (seq_exc, bat_exc), seq)
            elif seq_exc is not None and exc_sig(seq_exc) != exc_sig(bat_exc):
                V("batch-exception-differs|%s-vs-%s" % (type(seq_exc).__name__, type(bat_exc).__name__), "sequential %r, batch %r" % (seq_exc, bat_exc), seq)
            if submitted and log_at_submission != objs["b"].log:
                V("batch-not-executed-when-submitted", "when the batch call returned the object had run %r; after the results were read %r" % (log_at_submission, objs["b"].log), seq)
            if objs["b"].log != objs["s"].log:
                V("batch-executed-different-calls|%s" % ("more" if len(objs["b"].log) > len(objs["s"].log) else "fewer-or-other"),
                  "batch ran %r, sequential ran %r" % (objs["b"].log, objs["s"].log), seq)
            if (objs["b"].total, objs["b"].items) != (objs["s"].total, objs["s"].items):
                V("batch-state-differs", "object after batch %r, after sequential %r" % ((objs["b"].total, objs["b"].items), (objs["s"].total, objs["s"].items)), seq)
            if one_exc is not None:
                V("oneway-batch-raised|%s" % type(one_exc).__name__, "%r" % one_exc, seq)
            elif one_ret is not None:
                V("oneway-batch-returned-something", "%r" % (one_ret,), seq)
            if objs["o"].log != objs["s"].log:
                V("oneway-batch-executed-different-calls|%s" % ("more" if len(objs["o"].log) > len(objs["s"].log) else "fewer-or-other"),
                  "oneway batch ran %r, sequential ran %r" % (objs["o"].log, objs["s"].log), seq)
            for oid in ("s", "b", "o"):
                if any(e[0] in ("unexposed", "_private") for e in objs[oid].log):
                    V("unexposed-member-executed|%s" % oid, "log %r" % objs[oid].log, seq)
            # ---- the batch objects are reusable: a later batch on the same BatchProxy holds only its own calls
            for which, bp, oid, accepted in (("batch", b, "b", submitted), ("oneway-batch", ob, "o", one_exc is None)):
                if not accepted:
                    continue      # a batch refused on submission keeps its calls (resubmitting it is the caller's business)
                before = len(objs[oid].log)
                try:
                    bp.nothing()
                    again = list(bp())
                    if len(again) != 1 or len(objs[oid].log) != before + 1:
                        V("reused-%s-replays-earlier-calls" % which, "second batch on the same BatchProxy returned %s and ran %r" % (show(again), objs[oid].log[before:]), seq)
                except Exception as x:
                    V("reused-%s-fails|%s" % (which, type(x).__name__), "%r" % x, seq)
                del objs[oid].log[before:]
            key = "len=%d,fail=%s" % (len(seq), type(seq_exc).__name__ if seq_exc else "-")
            st.outcomes[key] = st.outcomes.get(key, 0) + 1
            st.states.add((objs["s"].total, tuple(objs["s"].items), len(objs["s"].log)))
            if len(st.samples) < 2 and len(seq) == maxlen and seq_exc is not None:
                st.samples.append({"serializer": sername, "sequence": [s[0] for s in seq], "results": show(seq_results), "failure": repr(seq_exc)})
        for p in proxies.values():
            p._pyroRelease()
        if w.net.pump_errors:
            V("daemon-loop-error", "%r" % w.net.pump_errors[:2], ())
    finally:
        targets.register_converters(False)
        w.close()
        gc.enable()
        gc.collect()
    return st


def run(ctx):
    from Pyro5 import serializers
    maxlen = 3 if ctx.quick else 4
    units = []
    n = 4 if ctx.quick else 16
    for sername in sorted(serializers.serializers):
        for i in range(n):
            units.append((sername, maxlen, i, n))
    mixed = [("serpent", "json"), ("json", "marshal"), ("marshal", "serpent"), ("msgpack", "json")] + ([] if ctx.quick else [("json", "serpent"), ("marshal", "json"), ("serpent", "marshal"), ("json", "msgpack")])
    for dser, cser in mixed:
        for i in range(2 if ctx.quick else 8):
            units.append((dser, 2 if ctx.quick else 3, i, 2 if ctx.quick else 8, cser))
    total = Stats()
    for st in ctx.pmap(run_config, units):
        total.merge(st)
    cov = coverage_from_stats(
        total,
        rule="every call sequence of length 0..%d over an %d-letter alphabet (succeeding calls with positional/keyword arguments, five raising calls (two with content only some serializers can carry), an unexposed, a "
             "private and a missing member, a call with bad arguments) x 4 serializers (plus %d daemon/client serializer mismatches, shorter sequences), run (a) call by call, (b) as a batch, (c) as a oneway batch on three "
             "identical fresh objects behind a real Proxy/Daemon pair; results prefix, failure class+args and position, execution logs and final object state "
             "must agree; distinct = distinct (state, log length) of the sequential run" % (maxlen, len(ALPHABET), len(mixed)),
        nontrivial=len(total.states))
    return {"violations": total.violations, "coverage": cov, "assumptions": ["faithful in-memory transport; oneway batches run synchronously in the daemon as in the real code"]}


def replay(ctx, payload):
    st = run_config(tuple(payload["replay"]["unit"]))
    return {"violations": [v for v in st.violations if v["fingerprint"] == payload["fingerprint"]]}
