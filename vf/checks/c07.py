"""
C07 - remote exceptions arrive as the same exception with the same content.
Engine S over the synchronous in-memory transport: every exception class of builtins and Pyro5.errors x argument shapes x
attribute dictionaries x 4 serializers x call kinds.
"""
import builtins
import gc
import threading

from vf.explore import Stats
from vf.common import coverage_from_stats
from vf.values import same, show

PID = "C07"

ARG_SHAPES = [(), ("msg",), ("é\x00", 2 ** 70), (None, [1.5, {"k": "v"}]), (3, "three"), ("x", (3, 4))]
ATTR_SHAPES = {"none": {}, "scalar": {"code": 7}, "nested": {"info": [1, {"a": "x"}], "flag": True}, "tuple": {"span": (10, 20), "deep": [("a", 1)]},
               "notes": {"__notes__": ["first note", "second note"]}, "odd-names": {"__custom__": 1, "_private": "p", "__x": 2, "\u00dcn\u00ef": 3, "with space": 4}}
KINDS = ["call", "prop", "batch_first", "batch_middle", "batch_last", "stream0", "stream2"]
GENERATOR_PROTOCOL = ("StopIteration", "StopAsyncIteration", "GeneratorExit")


def exception_classes():
    from Pyro5 import errors
    out = []
    for name, t in sorted(vars(builtins).items()):
        if isinstance(t, type) and issubclass(t, Exception):
            out.append(("builtins", name, t))
    for name, t in sorted(vars(errors).items()):
        if isinstance(t, type) and issubclass(t, errors.PyroError):
            out.append(("Pyro5.errors", name, t))
    return out


def run_config(unit):
    from vf.syncworld import SyncWorld
    from vf import targets
    from Pyro5 import client, errors
    sername, si, sn, quick = unit
    st = Stats()
    seen = set()

    def V(fp, what, case):
        fp = "C07|" + fp
        if fp not in seen:
            seen.add(fp)
            st.violations.append({"fingerprint": fp, "what": "%s [serializer=%s case=%s]" % (what, sername, case), "replay": {"unit": [sername, 0, 1, quick], "case": repr(case)}})
    gc.disable()
    w = SyncWorld(SERIALIZER=sername)
    try:
        d = w.daemon()
        target = targets.Raiser()
        uri = d.register(target, "raiser")
        proxy = client.Proxy(uri)
        proxy._pyroBind()
        cases = []
        for mod, name, cls in exception_classes():
            for ai, args in enumerate(ARG_SHAPES):
                try:
                    probe = cls(*args)
                    if probe.args != args or type(probe) is not cls:
                        continue       # the constructor itself rewrites args or picks a subclass (OSError family): not the wire's doing
                    cls(*probe.args)
                except Exception:
                    continue           # the class constructor rejects this shape locally
                for an, attrs in ATTR_SHAPES.items():
                    if quick and ai in (3, 4) and an != "none":
                        continue
                    if quick and an in ("tuple", "notes", "odd-names") and ai not in (1, 5):
                        continue
                    cases.append((mod, name, cls, args, an, attrs))
        cases = cases[si::sn]
        tokens = [0]
        from Pyro5 import serializers as _sers
        _ser = _sers.serializers[sername]

        def mapped(value):
            """the serializer's own fixed mapping of a plain value (tuples become lists under json/msgpack ...), defined by a plain round trip"""
            return _ser.loads(_ser.dumps(value))

        def next_call_works(case, fpkey):
            tokens[0] += 1
            t = "tok%d" % tokens[0]
            try:
                r = proxy.token(t)
                if r != t:
                    V("next-call-wrong-answer|%s" % fpkey, "next call returned %r instead of %r" % (r, t), case)
                return
            except errors.CommunicationError:
                pass
            except Exception as x:
                V("next-call-fails|%s|%s" % (fpkey, type(x).__name__), "next call on the same proxy raised %r" % x, case)
                return
            # a communication error is tolerated once (e.g. the daemon dropped the connection after a SecurityError reply)
            tokens[0] += 1
            t = "tok%d" % tokens[0]
            try:
                r = proxy.token(t)
                if r != t:
                    V("proxy-not-recovered|%s" % fpkey, "second call returned %r" % (r,), case)
            except Exception as x:
                V("proxy-not-recovered|%s|%s" % (fpkey, type(x).__name__), "proxy unusable after the failure: %r" % x, case)

        def invoke(kind, key):
            if kind == "call":
                return proxy.raise_it(key)
            if kind == "prop":
                targets.Raiser.current = key
                return proxy.prop
            if kind.startswith("batch"):
                b = client.BatchProxy(proxy)
                pos = kind.split("_")[1]
                if pos in ("middle", "last"):
                    b.token("a")
                b.raise_it(key)
                if pos in ("first", "middle"):
                    b.token("z")
                got = []
                for r in b():
                    got.append(r)
                return ("batch-completed", got)
            if kind.startswith("stream"):
                idx = int(kind[6:])
                got = []
                for item in proxy.stream(key, idx):
                    got.append(item)
                return ("stream-completed", got)
        for case_i, (mod, name, cls, args, an, attrs) in enumerate(cases):
            key = "k%d" % case_i
            targets.Raiser.table = {key: (cls, args, attrs)}
            for kind in KINDS:
                if quick and kind in ("batch_first", "stream0") and (an != "none" or args != ("msg",)):
                    continue
                case = (mod + "." + name, args, an, kind)
                st.executions += 1
                st.points += 1
                try:
                    r = invoke(kind, key)
                    caught = None
                except Exception as x:
                    caught = x
                pyro_comm = mod == "Pyro5.errors" and issubclass(cls, errors.CommunicationError) and not issubclass(cls, errors.SerializeError)
                genproto = name in GENERATOR_PROTOCOL and (kind.startswith("stream") or kind.startswith("batch"))
                if name == "StopIteration" and kind.startswith("stream"):
                    continue   # raised inside the server-side generator it becomes a RuntimeError on the server itself (PEP 479)
                if caught is None:
                    if genproto and kind.startswith("stream"):
                        st.outcomes["stream-end-marker"] = st.outcomes.get("stream-end-marker", 0) + 1
                    else:
                        V("no-exception-raised|%s|%s" % (name, kind.split("_")[0]), "the call returned %s instead of raising %s%r" % (show(r), name, args), case)
                elif type(caught) is not cls or (pyro_comm and not same(tuple(caught.args), tuple(mapped(list(args))))):
                    if pyro_comm:
                        V("pyro-communication-error-raised-by-method-not-reported|%s" % name,
                          "remote method raised Pyro5.errors.%s, the caller got %r" % (name, caught), case)
                    elif genproto:
                        V("generator-protocol-exception-changed|%s|%s" % (name, kind.split("_")[0].rstrip("02")), "remote %s arrived as %r" % (name, caught), case)
                    else:
                        V("class-not-preserved|%s|%s" % (name, kind.split("_")[0].rstrip("02")), "remote %s%r arrived as %s: %r" % (name, args, type(caught).__name__, caught), case)
                else:
                    if not same(tuple(caught.args), tuple(mapped(list(args)))):
                        V("args-differ|%s" % kind.split("_")[0].rstrip("02"), "%s args %s arrived as %s" % (name, show(args), show(caught.args)), case)
                    got_attrs = {k: v for k, v in vars(caught).items() if k != "_pyroTraceback"}
                    if not same(got_attrs, mapped(attrs)):
                        V("attributes-differ|%s|%s" % (an, kind.split("_")[0].rstrip("02")), "%s attributes %s arrived as %s" % (name, show(attrs), show(got_attrs)), case)
                    tb = getattr(caught, "_pyroTraceback", None)
                    if not tb or not isinstance(tb, list) or not all(isinstance(l, str) for l in tb):
                        V("no-remote-traceback|%s" % kind.split("_")[0].rstrip("02"), "_pyroTraceback is %s" % show(tb), case)
                    elif not any(("raise_it" in l or "prop" in l or "stream" in l or "_make" in l) for l in tb):
                        V("traceback-does-not-name-remote-frame", "%s" % show("".join(tb), 300), case)
                oc = "%s:%s" % (kind.split("_")[0].rstrip("02"), "same-class" if (caught is not None and type(caught) is cls) else ("none" if caught is None else type(caught).__name__))
                st.outcomes[oc] = st.outcomes.get(oc, 0) + 1
                st.states.add((name, len(args), an, kind))
                if not (pyro_comm or name == "SecurityError"):
                    pass
                next_call_works(case, "after-%s" % ("pyro-comm" if pyro_comm else ("security" if name == "SecurityError" else "ordinary")))
            if len(st.samples) < 2 and an == "nested":
                st.samples.append({"serializer": sername, "class": mod + "." + name, "args": show(args), "attributes": an, "kinds": KINDS})
        # ---- unserialisable content and unknown classes
        special = [
            ("unserialisable-attribute", ValueError, ("bad",), {"lock": threading.Lock()}),
            ("unserialisable-arg", ValueError, (targets.Unserialisable(),), {}),
            ("unknown-class", targets.CustomError, ("custom", 5), {"extra": 1}),
        ]
        # content whose serialisation fails with errors of other kinds (any serializer hook / __getstate__ is user code)
        for xc in (AttributeError, KeyError, RuntimeError, ZeroDivisionError, LookupError, AssertionError):
            special.append(("unserialisable-attribute-%s" % xc.__name__, ValueError, ("bad",), {"thing": targets.unserialisable_with(xc)}))
        special.append(("unserialisable-attribute-halfbuilt", ValueError, ("bad",), {"thing": targets.HalfBuilt()}))
        special.append(("unserialisable-arg-RuntimeError", ValueError, (targets.unserialisable_with(RuntimeError),), {}))
        for label, cls, args, attrs in special:
            targets.Raiser.table = {"sp": (cls, args, attrs)}
            for kind in KINDS:
                case = (label, kind)
                st.executions += 1
                try:
                    r = invoke(kind, "sp")
                    caught = None
                except Exception as x:
                    caught = x
                if caught is None:
                    V("silent-result-instead-of-error|%s|%s" % (label, kind.split("_")[0].rstrip("02")), "returned %s" % show(r), case)
                elif not isinstance(caught, errors.PyroError):
                    V("not-a-pyro-error|%s|%s|%s" % (label, kind.split("_")[0].rstrip("02"), type(caught).__name__), "caller got %r" % caught, case)
                else:
                    text = str(caught)
                    want = "CustomError" if label == "unknown-class" else "ValueError"
                    if want not in text:
                        V("error-does-not-describe-original|%s|%s" % (label, kind.split("_")[0].rstrip("02")), "text %r does not mention %s" % (text[:200], want), case)
                st.outcomes["special:%s:%s" % (label, type(caught).__name__ if caught else "none")] = st.outcomes.get("special:%s:%s" % (label, type(caught).__name__ if caught else "none"), 0) + 1
                # "the proxy remains usable for the next call"
                tokens[0] += 1
                t = "tok%d" % tokens[0]
                try:
                    r = proxy.token(t)
                    if r != t:
                        V("next-call-wrong-answer|%s" % label, "%r" % (r,), case)
                except Exception as x:
                    V("proxy-unusable-after-unserialisable|%s|%s|%s" % (label, kind.split("_")[0].rstrip("02"), type(x).__name__), "next call raised %r" % x, case)
        proxy._pyroRelease()
        if w.net.pump_errors:
            V("daemon-loop-error", "%r" % w.net.pump_errors[:2], ())
    finally:
        w.close()
        gc.enable()
        gc.collect()
    return st


def run(ctx):
    from Pyro5 import serializers
    n = 4
    units = [(s, i, n, ctx.quick) for s in sorted(serializers.serializers) for i in range(n)]
    total = Stats()
    for st in ctx.pmap(run_config, units):
        total.merge(st)
    cov = coverage_from_stats(
        total,
        rule="every Exception subclass in builtins and every PyroError subclass in Pyro5.errors (%d classes) x argument tuples from the lossless core (5 shapes, those the "
             "class constructor itself refuses or rewrites are skipped) x attribute dictionaries {none, scalar, nested, tuples, PEP 678 notes, dunder/private/non-ascii/odd names} x 4 serializers x call kinds {plain call, "
             "property read, batch member first/middle/last, streamed item raising at index 0/2}; plus unserialisable attribute / argument and a class unknown to the "
             "receiver; after every failure the next call on the same proxy must work; distinct = (class, shape, kind) combinations" % len(exception_classes()),
        nontrivial=len(total.states))
    return {"violations": total.violations, "coverage": cov,
            "assumptions": ["classes deriving from BaseException only (SystemExit, KeyboardInterrupt, GeneratorExit) are let through by the daemon by Python convention and are not enumerated",
                            "faithful in-memory transport"]}


def replay(ctx, payload):
    st = run_config(tuple(payload["replay"]["unit"]))
    return {"violations": [v for v in st.violations if v["fingerprint"] == payload["fingerprint"]]}
