"""
C17 - socket reads and writes are exact under fragmentation and transient errors.
Engine S: exhaustive enumeration of per-call socket behaviour scripts against socketutil.receive_data / send_data
with a scripted socket; reference model = a stream cursor.
"""
import errno
import itertools
import socket

from vf.explore import Stats, HarnessError
from vf.common import coverage_from_stats

PID = "C17"

RETRY = [("err", errno.EINTR), ("err", errno.EAGAIN), ("err", errno.EINPROGRESS)]
if errno.EWOULDBLOCK != errno.EAGAIN:
    RETRY.append(("err", errno.EWOULDBLOCK))
FATAL = [("err", errno.ECONNRESET), ("err", errno.EBADF), ("err", errno.EPIPE)]
TERMINAL = FATAL[:2] + [("timeout",), ("eof",)]
DELIVER = [("k", "1"), ("k", "2"), ("k", "half"), ("k", "n-1"), ("k", "all")]


def stream_bytes(n):
    return bytes((i * 7 + 3) % 251 for i in range(n)) if n < 4096 else (bytes(range(251)) * (n // 251 + 1))[:n]


CALL_CAP = 2000      # far above what any script needs (script length + size/60000 + a few): beyond it the library is spinning


class Spin(BaseException):
    """the library keeps calling the socket although nothing can change any more"""


class ScriptSock:
    """recv side"""
    def __init__(self, stream, script, ssl_like=False):
        self.stream = stream
        self.cursor = 0
        self.script = list(script)
        self.i = 0
        self.calls = 0
        self.flags_seen = []
        self.terminal = None      # the first terminal event served
        self.asked_total = 0
        if ssl_like is True:
            self.getpeercert = lambda: None
        self.blocking = ssl_like == "blocking"       # third mode: an ordinary socket without a timeout

    def gettimeout(self):
        return None if self.blocking else 3.0

    def recv(self, n, flags=0):
        self.calls += 1
        if self.calls > CALL_CAP:
            raise Spin()
        self.flags_seen.append(flags)
        # end of stream and fatal errors are sticky, as on a real socket
        if self.terminal == ("eof",):
            return b""
        if self.terminal is not None and self.terminal[0] == "err":
            raise OSError(self.terminal[1], "scripted errno %d (again)" % self.terminal[1])
        if self.i < len(self.script):
            ev = self.script[self.i]
            self.i += 1
        else:
            ev = ("k", "all")
        if ev[0] == "k":
            if n == 0:
                return b""
            want = {"1": 1, "2": 2, "half": max(1, n // 2), "n-1": max(1, n - 1), "all": n}[ev[1]]
            k = min(want, n, len(self.stream) - self.cursor)
            if k <= 0:
                if self.terminal is None:
                    self.terminal = ("eof",)
                return b""
            chunk = self.stream[self.cursor:self.cursor + k]
            self.cursor += k
            return chunk
        if self.terminal is None and ev in TERMINAL + FATAL:
            self.terminal = ev
        if ev[0] == "err":
            raise OSError(ev[1], "scripted errno %d" % ev[1])
        if ev[0] == "timeout":
            raise socket.timeout("scripted timeout")
        if ev[0] == "eof":
            return b""
        raise AssertionError(ev)


def _recv_into(self, buffer, nbytes=0, flags=0):
    mv = memoryview(buffer).cast("B")
    n = nbytes or len(mv)
    data = self.recv(min(n, len(mv)), flags)
    mv[:len(data)] = data
    return len(data)


ScriptSock.recv_into = _recv_into      # the same scripted answers, for code that receives into a buffer


class SendSock:
    def __init__(self, script, blocking):
        self.script = list(script)
        self.i = 0
        self.peer = bytearray()
        self.blocking = blocking
        self.terminal = None
        self.calls = 0

    def gettimeout(self):
        return None if self.blocking else 3.0

    def _ev(self, default):
        if self.i < len(self.script):
            ev = self.script[self.i]
            self.i += 1
            return ev
        return default

    def sendall(self, data):
        self.calls += 1
        if self.calls > CALL_CAP:
            raise Spin()
        ev = self._ev(("k", "all"))
        if ev[0] == "k":
            self.peer.extend(bytes(data))
            return None
        if ev[0] == "partial-err":
            # sendall is not restartable: part of the buffer is on the wire when it fails
            self.peer.extend(bytes(data[:max(1, len(data) // 2)]) if len(data) else b"")
            ev = ("err", ev[1])
        if self.terminal is None:
            self.terminal = ev
        if ev[0] == "err":
            raise OSError(ev[1], "scripted")
        if ev[0] == "timeout":
            raise socket.timeout("scripted")
        raise AssertionError(ev)

    def send(self, data):
        self.calls += 1
        if self.calls > CALL_CAP:
            raise Spin()
        n = len(data)
        ev = self._ev(("k", "all"))
        if ev[0] == "k":
            want = {"0": 0, "1": 1, "2": 2, "half": max(1, n // 2), "n-1": max(1, n - 1), "all": n}[ev[1]]
            k = min(want, n)
            self.peer.extend(bytes(data[:k]))
            return k
        if ev in FATAL or ev == ("timeout",):
            if self.terminal is None:
                self.terminal = ev
        if ev[0] == "err":
            raise OSError(ev[1], "scripted")
        if ev[0] == "timeout":
            raise socket.timeout("scripted")
        raise AssertionError(ev)


def scripts(maxlen, nonterm, term):
    """all scripts: sequences of non-terminal events, optionally closed by one terminal event"""
    for L in range(0, maxlen + 1):
        for body in itertools.product(nonterm, repeat=L):
            yield body
            if L < maxlen:
                for t in term:
                    yield body + (t,)


def check_recv(size, avail, waitall, ssl_like, script, V, stats, errors, socketutil):
    stream = stream_bytes(avail)
    s = ScriptSock(stream, script, ssl_like)
    socketutil.USE_MSG_WAITALL = waitall
    desc = None
    try:
        data = socketutil.receive_data(s, size)
        got = ("ret", bytes(data))
    except errors.TimeoutError as x:
        got = ("TimeoutError", getattr(x, "partialData", None))
    except errors.ConnectionClosedError as x:
        got = ("ConnectionClosedError", getattr(x, "partialData", None))
    except Exception as x:
        got = ("other:" + type(x).__name__, None)
    except Spin:
        V("recv-does-not-terminate|%s" % (s.terminal[0] if s.terminal else "no-terminal-event"), "receive_data called the socket more than %d times without returning or raising (terminal event %r); size=%d avail=%d waitall=%s ssl=%s script=%r"
          % (CALL_CAP, s.terminal, size, avail, waitall, ssl_like, script))
        stats.points += s.calls
        return "spin", s.terminal
    stats.points += s.calls
    term = s.terminal
    cfgs = "size=%d avail=%d waitall=%s ssl=%s script=%r" % (size, avail, waitall, ssl_like, script)
    if got[0] == "ret":
        if got[1] != stream[:size]:
            kind = "short" if len(got[1]) < size else ("surplus" if len(got[1]) > size else "wrong-bytes")
            V("recv-returned-%s" % kind, "returned %d bytes, expected exactly the next %d; %s" % (len(got[1]), size, cfgs))
        elif s.cursor != size:
            V("recv-consumed-%s" % ("more" if s.cursor > size else "less"), "consumed %d bytes from the stream for a %d byte read; %s" % (s.cursor, size, cfgs))
        elif term is not None and size > 0 and not (term == ("eof",) and s.cursor >= size):
            V("recv-returned-after-terminal-%s" % term[0], "returned data although the socket reported %r; %s" % (term, cfgs))
    else:
        if term is None:
            V("recv-raised-without-cause|%s" % got[0], "raised %s although only deliveries/retryable errors happened; %s" % (got[0], cfgs))
        else:
            want = "TimeoutError" if term == ("timeout",) else "ConnectionClosedError"
            if got[0] != want:
                V("recv-wrong-exception|%s-instead-of-%s|%s" % (got[0], want, term[0] if term[0] != "err" else errno.errorcode.get(term[1], term[1])),
                  "raised %s, expected %s after %r; %s" % (got[0], want, term, cfgs))
            elif want == "ConnectionClosedError":
                pd = got[1]
                if pd is None:
                    V("recv-no-partialData|%s" % ("eof" if term == ("eof",) else "fatal-errno"),
                      "ConnectionClosedError without partialData after %r (%d bytes had been received); %s" % (term, s.cursor, cfgs))
                elif bytes(pd) != stream[:s.cursor]:
                    V("recv-wrong-partialData", "partialData has %d bytes, %d were received; %s" % (len(pd), s.cursor, cfgs))
    return got[0], term


def check_send(n, blocking, script, V, stats, errors, socketutil, as_type):
    data = stream_bytes(n)
    payload = {"bytes": data, "bytearray": bytearray(data), "memoryview": memoryview(data)}[as_type]
    s = SendSock(script, blocking)
    try:
        socketutil.send_data(s, payload)
        got = "ret"
    except errors.TimeoutError:
        got = "TimeoutError"
    except errors.ConnectionClosedError:
        got = "ConnectionClosedError"
    except Exception as x:
        got = "other:" + type(x).__name__
    except Spin:
        V("send-does-not-terminate", "send_data called the socket more than %d times without returning or raising; n=%d blocking=%s script=%r" % (CALL_CAP, n, blocking, script))
        stats.points += s.calls
        return "spin", s.terminal
    stats.points += s.calls
    cfgs = "n=%d blocking=%s type=%s script=%r" % (n, blocking, as_type, script)
    peer = bytes(s.peer)
    if got == "ret":
        if peer != data:
            V("send-%s" % ("duplicated-or-reordered" if len(peer) >= n else "lost-bytes"),
              "send_data returned but the peer received %d bytes (%s) instead of the %d sent; %s" % (len(peer), peer[:12], n, cfgs))
        elif s.terminal is not None:
            V("send-returned-after-terminal", "returned although the socket reported %r; %s" % (s.terminal, cfgs))
    else:
        if s.terminal is None:
            V("send-raised-without-cause|%s" % got, "raised %s although only partial writes/retryable errors happened; %s" % (got, cfgs))
        else:
            want = "TimeoutError" if s.terminal == ("timeout",) else "ConnectionClosedError"
            if got != want:
                V("send-wrong-exception|%s-instead-of-%s" % (got, want), "after %r; %s" % (s.terminal, cfgs))
            if data[:len(peer)] != peer:
                V("send-garbled-before-error", "peer received bytes that are not a prefix of the buffer; %s" % cfgs)
    return got, s.terminal


def task(unit):
    import sys
    from Pyro5 import socketutil, errors
    from vf.sched import TimeShim
    if not isinstance(socketutil.time, TimeShim):
        socketutil.time = TimeShim()
    kind, params, maxlen = unit
    st = Stats()
    seenfp = set()

    def V(fp, what):
        fp = "C17|" + fp
        if fp not in seenfp:
            seenfp.add(fp)
            st.violations.append({"fingerprint": fp, "what": what, "replay": {"unit": [kind, list(params), maxlen], "case": what}})
    saved = socketutil.USE_MSG_WAITALL
    try:
        if kind == "recv":
            size, avail, waitall, ssl_like = params
            nonterm = DELIVER + RETRY
            def burst_scripts():
                # beyond the length bound of the exhaustive part: long runs of retryable errors (any retry budget or back-off table
                # that runs out shows here), before the first byte, between two fragments, and both
                if size < 2:
                    return
                for n in (8, 9, 10, 16, 33, 64):
                    for e in RETRY[:2]:
                        yield (e,) * n
                        yield (("k", "1"),) + (e,) * n
                        yield (e,) * (n // 2) + (("k", "1"),) + (e,) * (n - n // 2)
                        yield (("k", "1"),) + (e,) * n + (("eof",),)
            for sc in itertools.chain(scripts(maxlen if size else min(1, maxlen), nonterm, TERMINAL), burst_scripts()):
                oc = check_recv(size, avail, waitall, ssl_like, sc, V, st, errors, socketutil)
                st.executions += 1
                k = "recv:%s:%s" % (oc[0], oc[1])
                st.outcomes[k] = st.outcomes.get(k, 0) + 1
                if len(st.samples) < 2 and len(sc) == maxlen:
                    st.samples.append({"op": "receive_data", "size": size, "stream_len": avail, "waitall": waitall, "ssl_like": ssl_like,
                                       "script": [list(e) for e in sc], "outcome": oc[0]})
        else:
            n, blocking, as_type = params
            if blocking:
                nonterm = [("k", "all")]
                term = [FATAL[0], FATAL[2], ("timeout",), ("partial-err", errno.EINTR), ("partial-err", errno.EAGAIN), ("partial-err", errno.ECONNRESET), ("err", errno.EAGAIN)]
            else:
                nonterm = [("k", "1"), ("k", "2"), ("k", "half"), ("k", "n-1"), ("k", "all"), ("k", "0")] + RETRY
                term = FATAL + [("timeout",)]
            def send_bursts():
                if blocking or n < 2:
                    return
                for k in (8, 9, 10, 16, 33, 64):
                    for e in RETRY[:2]:
                        yield (e,) * k
                        yield (("k", "1"),) + (e,) * k
                        yield (("k", "1"),) + (e,) * k + (FATAL[0],)
            for sc in itertools.chain(scripts(maxlen, nonterm, term), send_bursts()):
                oc = check_send(n, blocking, sc, V, st, errors, socketutil, as_type)
                st.executions += 1
                k = "send:%s:%s" % (oc[0], oc[1])
                st.outcomes[k] = st.outcomes.get(k, 0) + 1
                if len(st.samples) < 1 and len(sc) == maxlen:
                    st.samples.append({"op": "send_data", "n": n, "blocking": blocking, "script": [list(e) for e in sc], "outcome": oc[0]})
    finally:
        socketutil.USE_MSG_WAITALL = saved
    st.states.add(kind + repr(params))
    return st


def units(tier):
    quick = tier == "quick"
    out = []
    small = [0, 1, 2, 3, 7]
    for size in small:
        for avail in sorted({size, size + 5, max(0, size - 1)}):
            for waitall in (True, False):
                for ssl_like in (False, True, "blocking"):
                    if ssl_like is True and not waitall:
                        continue
                    out.append(("recv", (size, avail, waitall, ssl_like), 5 if quick else 7))
    for size in [60000, 60001, 120001]:
        for avail in (size, size + 9, size - 1):
            for waitall in (True, False):
                out.append(("recv", (size, avail, waitall, False), 3 if quick else 4))
                if waitall:
                    out.append(("recv", (size, avail, waitall, "blocking"), 3 if quick else 4))
    for n in [60001, 120001]:
        # more than one 60000-byte block: partial writes in the first blocks
        out.append(("send", (n, False, "bytes"), 3))
    for n in [0, 1, 2, 3, 7, 64]:
        out.append(("send", (n, True, "bytes"), 2))
        for ty in ("bytes", "bytearray", "memoryview"):
            if ty != "bytes" and n not in (3, 7):
                continue
            out.append(("send", (n, False, ty), (4 if n <= 7 else 3) if quick else (5 if n <= 7 else 4)))
    return out


def run(ctx):
    us = units(ctx.tier)
    total = Stats()
    for st in ctx.pmap(task, us):
        total.merge(st)
    cov = coverage_from_stats(
        total,
        rule="every script (up to the stated length, then faithful delivery) of per-call socket behaviours {deliver 1/2/half/n-1/all asked bytes, "
             "EINTR, EAGAIN/EWOULDBLOCK, EINPROGRESS, ECONNRESET, EBADF, socket.timeout, EOF} for receive_data over sizes {0,1,2,3,7,60000,60001,120001}, "
             "streams that end early/exactly/late, MSG_WAITALL on/off, plus bursts of 8-64 consecutive retryable errors before / between fragments; sockets in timeout mode and in blocking mode (gettimeout() None) and an ssl-like socket; and of {partial write 0/1/2/half/n-1/all, retryable, "
             "fatal, timeout} for send_data in blocking and timeout mode with bytes/bytearray/memoryview buffers; distinct = (operation, result class, "
             "terminal event) classes",
        extra={"units": len(us)})
    cov["states"] = len(total.states)
    return {"violations": total.violations, "coverage": cov,
            "assumptions": ["a socket is modelled by its per-call answers; after the script it delivers faithfully",
                            "time.sleep in socketutil is virtual"]}


def replay(ctx, payload):
    unit = payload["replay"]["unit"]
    st = task((unit[0], tuple(unit[1]), unit[2]))
    return {"violations": [v for v in st.violations if v["fingerprint"] == payload["fingerprint"]], "all": [v["fingerprint"] for v in st.violations]}
