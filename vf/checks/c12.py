"""
C12 - per-call context never leaks between calls or clients.
Engine N+T whole system: 2-3 clients run short call scripts (returning / raising / oneway / batch / ping / reconnect) against the real
request loop of the multiplex server (one thread serves all) and of the thread-pool server with one worker (reused by successive
connections); all interleavings within the budget, with scheduling points inside the method bodies. Every method records the context
it sees; every message every client receives is parsed on the wire.
"""
import itertools
import uuid

from vf.explore import Stats, HarnessError, Chooser
from vf.common import coverage_from_stats, explore_parallel, run_unit
from vf.values import show

PID = "C12"
STEPS = ["ret_assign", "ret_update", "raise_after_set", "ow_set", "plain", "batch", "ping", "reconnect", "ow_reset", "raw_refused"]


def make_run(cfg):
    from vf import sched as S
    from vf.schedworld import SchedWorld
    from vf import targets
    from Pyro5 import client, errors, protocol, server, socketutil
    from Pyro5.callcontext import current_context
    scripts = cfg["scripts"]

    class AnnDaemon(server.Daemon):
        _persistent = {"DMON": b"d"}

        def annotations(self):
            if cfg.get("daemon_ann") == "persistent":
                return self._persistent        # an override may well hand out the same dict object every time
            return {"DMON": b"d"} if cfg.get("daemon_ann") else {}

    watch = S.watch_functions(server.Daemon.handleRequest, follow=True) if cfg.get("watch_request") else None

    def run_fn(chooser):
        w = SchedWorld(chooser, servertype=cfg["server"], allow_ticks=False, max_idle_wakes=30, watch=watch, THREADPOOL_SIZE=cfg.get("pool", 4), THREADPOOL_SIZE_MIN=1)
        violations = []
        try:
            d = w.daemon(AnnDaemon)
            tgt = targets.CtxTarget()
            d.register(tgt, "ctx")
            w.serve(d)
            wire = []          # (client fd, msgtype, seq, flags, annotations dict) of every server->client message
            sent = {}          # (client fd, seq) -> REQI of the request that was sent with that sequence number

            def hook(sock, data):
                if len(data) >= 40 and data[:4] == b"PYRO":
                    try:
                        m = protocol.ReceivingMessage(data[:40], data[40:])
                        ann = {k: bytes(v) for k, v in m.annotations.items()}
                        if sock.name.startswith("s"):
                            wire.append((sock.peer.fd, m.type, m.seq, m.flags, ann))
                        elif m.type == protocol.MSG_INVOKE:
                            sent[(sock.fd, m.seq)] = ann.get("REQI")
                    except Exception:
                        pass
                return data
            w.net.wire_hook = hook
            client_view = {}
            order = {}
            nocorr_requests = set()
            noann_tags = set()
            owbatch_tags = set()
            client_addrs = {}      # client index -> local addresses of the connections it used

            def make_client(ci, script):
                def body():
                    obs = []
                    client_view[ci] = obs
                    try:
                        if cfg.get("sequential") and ci > 0:
                            order[ci - 1].wait()
                        small_pool = cfg["server"] == "thread" and cfg.get("pool", 4) == 1

                        def wait_for_free_worker():
                            # with a pool of one, a refusal while the previous connection is still being cleaned up would be legitimate
                            if small_pool:
                                pool = d.transportServer.pool
                                w.sch.block(lambda: not pool.busy, what="worker free")
                        wait_for_free_worker()
                        p = client.Proxy("PYRO:ctx@h:1")
                        n = 0
                        for step in script:
                            n += 1
                            reqi = ("c%d-%d" % (ci, n)).encode()
                            current_context.annotations = {"REQI": reqi}
                            if step.endswith("!noann"):       # this request carries no annotations at all
                                step = step.replace("!noann", "")
                                current_context.annotations = {}
                                noann_tags.add("c%d-%d" % (ci, n))
                            nocorr = step.endswith("!nocorr")      # this request carries no correlation id: the daemon assigns a fresh one
                            step = step.replace("!nocorr", "")
                            current_context.correlation_id = None if nocorr else uuid.UUID(int=(ci + 1) * 1000 + n)
                            if nocorr:
                                nocorr_requests.add(reqi)
                            tag = "c%d-%d" % (ci, n)
                            if p._pyroConnection is None:
                                wait_for_free_worker()      # this step is going to connect
                            try:
                                if step == "reconnect":
                                    p._pyroRelease()
                                    wait_for_free_worker()
                                    p._pyroBind()
                                    r = ("ok", None)
                                elif step == "ow_reset":
                                    # a oneway request, and the connection is aborted (RST) before the daemon gets to read it
                                    p._pyroBind()
                                    p.ow_set(tag)
                                    p._pyroConnection.sock.do_reset()
                                    p._pyroConnection = None
                                    r = ("ok", None)
                                elif step == "raw_refused":
                                    # a peer whose first message is not a connect request: refused with CONNECTFAIL
                                    wait_for_free_worker()
                                    rs = w.net.create_socket(connect=("h", 1))
                                    rc = socketutil.SocketConnection(rs)
                                    try:
                                        rs.sendall(bytes(protocol.SendingMessage(protocol.MSG_PING, 0, 1, 42, b"ping").data))
                                        rs.settimeout(3.0)
                                        try:
                                            protocol.recv_stub(rc)
                                        except errors.CommunicationError:
                                            pass
                                    finally:
                                        rc.close()
                                    r = ("ok", None)
                                elif step == "ping":
                                    p._pyroBind()
                                    protocol.SendingMessage.ping(p._pyroConnection)
                                    r = ("ok", None)
                                elif step == "ow_batch":
                                    # a oneway batch: its members run with this request's context, and before this client's next call is served
                                    b = client.BatchProxy(p)
                                    b.ret_update(tag + "a")
                                    b.plain(tag + "b")
                                    owbatch_tags.add(tag)
                                    r = ("ok", b(oneway=True))
                                elif step == "batch":
                                    b = client.BatchProxy(p)
                                    b.ret_update(tag + "a")
                                    b.plain(tag + "b")
                                    r = ("ok", list(b()))
                                else:
                                    r = ("ok", getattr(p, step)(tag))
                            except ValueError as x:
                                r = ("exc", x.args)
                            except errors.CommunicationError as x:
                                r = ("comm", repr(x))
                            if p._pyroConnection is not None:
                                client_addrs.setdefault(ci, set()).add(tuple(p._pyroConnection.sock.addr))
                            ra = {k: bytes(v) for k, v in (current_context.response_annotations or {}).items()}
                            obs.append((step, tag, r, ra, p._pyroConnection.sock.fd if p._pyroConnection else None))
                        p._pyroRelease()
                    except S.AbortExecution:
                        raise
                    except Exception as x:
                        obs.append(("error", repr(x)))
                    finally:
                        current_context.annotations = {}
                        current_context.correlation_id = None
                        if ci in order:
                            order[ci].flag = True
                return body
            for ci, script in enumerate(scripts):
                order[ci] = S.CoopEvent()
            for ci, script in enumerate(scripts):
                w.client(make_client(ci, script), "client-%d" % ci)
            outcome = w.run()

            def V(fp, what):
                violations.append({"fingerprint": "C12|" + fp, "what": "%s [cfg=%s]" % (what, cfg), "replay": {"cfg": cfg}})
            if w.loop_errors:
                V("request-loop-stopped|%s" % type(w.loop_errors[0][1]).__name__, "%r" % (w.loop_errors,))
            if outcome == "deadlock":
                V("client-hangs", "%r" % w.sch.threads)
            elif outcome != "quiescent":
                raise HarnessError("C12 ended with %s" % outcome)
            for name, x in w.sch.errors:
                V("uncaught-in-thread|%s|%s" % (name.split("-")[0], type(x).__name__), "%r" % x)
            srv = cfg["server"]
            # ---- (1) context seen inside methods is that of the request being served
            for rec in tgt.seen:
                tag = rec["tag"]
                base = tag[:-1] if rec["kind"] in ("ret_update", "plain") and tag[-1] in "ab" else tag
                want_reqi = base.encode() if base not in noann_tags else None
                if sorted(rec["annkeys"]) != (["REQI"] if want_reqi is not None else []):
                    V("context-of-other-request|annotations|foreign-keys|%s" % srv, "method %s(%s) saw request annotations %r, its request carried %r" % (rec["kind"], tag, rec["annkeys"], ["REQI"] if want_reqi else []))
                ci = int(base[1:].split("-")[0])
                n = int(base.split("-")[1])
                late = rec["kind"].endswith("-late")
                k = rec["kind"].replace("-late", "")
                where = ("oneway-thread" if k == "ow_set" else "method") + ("|after-yield" if late else "")
                if rec["addr"] is not None and tuple(rec["addr"]) not in client_addrs.get(ci, set()):
                    V("context-of-other-request|peer-address|%s|%s" % (srv, where), "method %s(%s) saw peer address %r, its caller used %r" % (k, tag, rec["addr"], sorted(client_addrs.get(ci, ()))))
                if rec["reqi"] != want_reqi:
                    V("context-of-other-request|annotations|%s|%s" % (srv, where), "method %s(%s) saw request annotation %r" % (k, tag, rec["reqi"]))
                if want_reqi in nocorr_requests:
                    # no id was sent: whatever the daemon assigns must not be the id of any other request
                    client_ids = {str(uuid.UUID(int=(c + 1) * 1000 + m)) for c in range(len(scripts)) for m in range(1, 10)}
                    others = {r["corr"] for r in tgt.seen if r["reqi"] != rec["reqi"]}
                    if rec["corr"] in client_ids or rec["corr"] in others or rec["corr"] == "None":
                        V("context-of-other-request|correlation-id-reused-for-request-without-one|%s" % srv, "method %s(%s) saw correlation id %s, which belongs to another request" % (k, tag, rec["corr"]))
                elif rec["corr"] != str(uuid.UUID(int=(ci + 1) * 1000 + n)):
                    V("context-of-other-request|correlation-id|%s|%s" % (srv, where), "method %s(%s) saw correlation id %s" % (k, tag, rec["corr"]))
                want_flags_oneway = (k == "ow_set") or base in owbatch_tags
                if bool(rec["flags"] & protocol.FLAGS_ONEWAY) != want_flags_oneway:
                    V("context-of-other-request|flags|%s|%s" % (srv, where), "method %s(%s) saw flags %r" % (k, tag, rec["flags"]))
                if rec["ser"] != 1:
                    V("context-of-other-request|serializer|%s" % srv, "%r" % rec)
                if rec["addr"] is not None and (rec["addr"][0] != "client"):
                    V("context-of-other-request|peer-address|%s" % srv, "%r" % (rec["addr"],))
            # a oneway batch is executed before the same client's next request is served (like any batch; only single oneway calls get a thread)
            for obt in owbatch_tags:
                oci, on = int(obt[1:].split("-")[0]), int(obt.split("-")[1])
                pos = {}
                for idx, rec in enumerate(tgt.seen):
                    t = rec["tag"]
                    bt = t[:-1] if rec["kind"] in ("ret_update", "plain") and t[-1] in "ab" else t
                    if bt.startswith("c%d-" % oci):
                        pos.setdefault(int(bt.split("-")[1]), []).append(idx)
                if on in pos:
                    later = [i for m, idxs in pos.items() if m > on for i in idxs]
                    if later and min(later) < max(pos[on]):
                        V("oneway-batch-overtaken-by-later-call|%s" % srv, "members of the oneway batch %s ran at positions %r of the server log, the client's later calls at %r" % (obt, pos[on], sorted(later)))
            # sequence numbers and peers: compare with what the wire saw for that REQI
            reqi_to = {v: k for k, v in sent.items() if v is not None}
            for rec in tgt.seen:
                if rec["reqi"] in reqi_to:
                    fd, seq = reqi_to[rec["reqi"]]
                    k = rec["kind"].replace("-late", "")
                    where = ("oneway-thread" if k == "ow_set" else "method") + ("|after-yield" if rec["kind"].endswith("-late") else "")
                    base = rec["tag"][:-1] if k in ("ret_update", "plain") and rec["tag"][-1] in "ab" else rec["tag"]
                    if rec["reqi"] == base.encode() and rec["seq"] != seq:
                        V("context-of-other-request|seq|%s|%s" % (srv, where), "method %s(%s) saw seq %r, its request had %r" % (k, rec["tag"], rec["seq"], seq))
                    csock = [c for c, s in w.net.sockets if c.fd == fd]
                    if rec["reqi"] == base.encode() and csock and rec["peer"] not in (csock[0].addr, "closed"):
                        V("context-of-other-request|connection|%s|%s" % (srv, where), "method %s(%s) saw the connection of peer %r, its caller is %r" % (k, rec["tag"], rec["peer"], csock[0].addr))
            # ---- (2) annotations on every message on the wire belong to the request it answers
            for fd, mtype, seq, flags, ann in wire:
                rsp = {k: v for k, v in ann.items() if k.startswith("RSP")}
                if mtype in (protocol.MSG_CONNECTOK, protocol.MSG_CONNECTFAIL, protocol.MSG_PING):
                    if rsp:
                        kind = {protocol.MSG_CONNECTOK: "handshake-answer", protocol.MSG_CONNECTFAIL: "handshake-refusal", protocol.MSG_PING: "ping-reply"}[mtype]
                        V("response-annotation-leaked|%s|%s|%s" % (kind, srv, "+".join(sorted(rsp))), "message to connection %d carries %r" % (fd, rsp))
                elif mtype == protocol.MSG_RESULT:
                    own = sent.get((fd, seq))
                    for k, v in rsp.items():
                        owner = v[:-1] if v[-1:] in (b"a", b"b") and k == "RSPU" and own is not None and v[:-1] == own else v
                        if own is None or owner != own:
                            V("response-annotation-leaked|%s-reply|%s|%s" % ("error" if flags & protocol.FLAGS_EXCEPTION else "result", srv, k),
                              "reply to request %r on connection %d carries %s=%r set by another call" % (own, fd, k, v))
            # ---- (3) what each client observes after each call
            for ci, obs in client_view.items():
                for o in obs:
                    if o[0] == "error":
                        V("client-script-failed", "%r" % (o,))
                        continue
                    step, tag, r, ra, fd = o
                    if r[0] == "comm":
                        V("call-failed-with-communication-error|%s" % step, "%r" % (r,))
                    if step in ("ping", "reconnect", "ow_reset", "raw_refused"):
                        continue      # not calls: the client-side clause is about what is observed after each call
                    for k, v in ra.items():
                        if k.startswith("RSP") and not v.startswith(tag.encode()):
                            V("client-sees-foreign-annotation|%s|%s|%s" % (step, srv, k), "after %s(%s) the client's response annotations hold %s=%r" % (step, tag, k, v))
                    if step == "ret_assign" and r == ("ok", tag) and ra.get("RSPA") != tag.encode():
                        V("own-annotation-missing|ret_assign", "%r" % (ra,))
                    if step == "plain" and any(k.startswith("RSP") for k in ra):
                        V("client-sees-foreign-annotation|%s|%s|any" % (step, srv), "%r" % (ra,))
            obs = (outcome, tuple((r["kind"], r["reqi"]) for r in tgt.seen), tuple(sorted((m[1], tuple(sorted(m[4]))) for m in wire)))
            return {"outcome": repr(obs), "violations": violations, "sample": {"cfg": cfg, "wire": [(m[1], m[2], sorted(m[4])) for m in wire][:6]}}
        finally:
            current_context.annotations = {}
            current_context.correlation_id = None
            w.close()
    return run_fn


def task(unit):
    return run_unit(make_run, unit)


def configs(quick):
    out = []
    calls = ["ret_assign", "ret_update", "raise_after_set", "ow_set", "plain", "batch", "ping", "ow_reset", "raw_refused"]
    # (a) two concurrently connected clients, one call each + a follow-up
    pairs = list(itertools.product(["ret_assign", "ret_update", "raise_after_set", "ow_set"], ["plain", "ret_assign", "ping", "reconnect", "batch", "ow_set", "ow_reset", "raw_refused"]))
    for a, b in pairs:
        for server, pool in (("multiplex", 4), ("thread", 4)):
            if quick and server == "thread" and (a, b) not in (("ow_set", "plain"), ("raise_after_set", "plain"), ("ret_assign", "ret_assign"), ("ow_set", "ow_set")):
                continue
            # thorough budgets are measured: on the multiplex server (1,2) costs ~25 cpu-s per pair and (2,1) ~3 cpu-min; on the thread pool (1,2) ~100 cpu-s;
            # (2,1)/(1,2) for all pairs took 43 min of wall time, (2,3) does not finish in hours
            pr = (1, 1) if (quick or server == "thread") else (1, 2)
            out.append({"server": server, "pool": pool, "scripts": [[a, "plain"], [b, "plain"]], "p": pr[0], "r": pr[1], "horizon": 4000})
    # (b) successive connections served by the same thread: multiplex, or a thread pool of one worker
    for a in ["ret_assign", "ret_update", "raise_after_set", "ow_set", "batch"]:
        for b in ["plain", "ping", "ret_update", "reconnect", "ow_reset", "raw_refused"]:
            for server, pool in (("multiplex", 4), ("thread", 1)):
                out.append({"server": server, "pool": pool, "sequential": True, "scripts": [[a], [b, "plain"]], "p": 1, "r": 1 if quick else 2, "horizon": 4000})
    # (c) one client, histories of length 3 (calls and reconnects on one connection)
    hist = itertools.product(calls + ["reconnect"], repeat=3) if not quick else [h for h in itertools.product(calls + ["reconnect"], repeat=3) if h[0] in ("raise_after_set", "ow_set", "ret_update") and h[1] != h[0]]
    for h in hist:
        out.append({"server": "multiplex", "pool": 4, "scripts": [list(h)], "p": 1 if not quick else 0, "r": 1, "horizon": 4000})
    # (c2) requests without a correlation id after requests that carried one (same serving thread)
    for server, pool, seqn in (("multiplex", 4, False), ("thread", 1, True), ("multiplex", 4, True)):
        out.append({"server": server, "pool": pool, "sequential": seqn, "scripts": [["plain", "ret_assign"], ["plain!nocorr", "ow_set!nocorr", "plain!nocorr"]], "p": 1, "r": 1, "horizon": 4000})
    out.append({"server": "multiplex", "pool": 4, "scripts": [["plain", "plain!nocorr", "raise_after_set!nocorr", "plain"]], "p": 0, "r": 1, "horizon": 4000})
    # (c3) oneway batches
    for server, pool in (("multiplex", 4), ("thread", 4)):
        out.append({"server": server, "pool": pool, "scripts": [["ow_batch", "plain", "plain"], ["ret_assign", "plain"]], "p": 1, "r": 1, "horizon": 4000})
        out.append({"server": server, "pool": pool, "scripts": [["plain", "ow_batch", "ret_update"]], "p": 1, "r": 2, "horizon": 4000})
    # (c4) two workers inside Daemon.handleRequest at the same time, every source line a scheduling point (one preemption)
    out.append({"server": "thread", "pool": 4, "watch_request": True, "scripts": [["plain"], ["plain", "plain"]], "p": 1, "r": 1, "horizon": 8000})
    out.append({"server": "thread", "pool": 4, "watch_request": True, "scripts": [["ret_assign"], ["raise_after_set", "plain"]], "p": 1, "r": 0, "horizon": 8000})
    # (d) three clients
    out.append({"server": "multiplex", "pool": 4, "scripts": [["raise_after_set"], ["ow_set"], ["plain", "ping"]], "p": 1, "r": 1 if quick else 2, "horizon": 4000})
    out.append({"server": "multiplex", "pool": 4, "daemon_ann": True, "scripts": [["ret_assign", "plain"], ["raise_after_set", "plain"]], "p": 1, "r": 2, "horizon": 4000})
    # (e) a daemon whose annotations() override returns one persistent dict; requests without any annotations, one of which marks its own in place
    for server, pool in (("multiplex", 4), ("thread", 1)):
        out.append({"server": server, "pool": pool, "sequential": True, "daemon_ann": "persistent", "scripts": [["ret_assign", "raise_after_set"], ["plain", "ping", "plain"]], "p": 1, "r": 1, "horizon": 4000})
        out.append({"server": server, "pool": pool, "sequential": True, "scripts": [["tag_request!noann", "plain!noann"], ["plain!noann", "plain"]], "p": 1, "r": 1, "horizon": 4000})
    out.append({"server": "thread", "pool": 4, "scripts": [["tag_request!noann", "plain!noann"], ["plain!noann", "tag_request"]], "p": 1, "r": 1, "horizon": 4000})
    return out


def run(ctx):
    cfgs = configs(ctx.quick)
    stats = explore_parallel(ctx, task, cfgs, lambda c: c["p"], lambda c: c["r"])
    cov = coverage_from_stats(
        stats,
        rule="call scripts of 1-3 clients over {call returning with a response annotation set by assignment / by in-place update, call raising after setting one, oneway call "
             "setting one, plain call, batch, ping, reconnect, oneway call whose connection is reset before it is read, raw peer whose first message is refused} on the multiplex server (one thread serves all clients) and the thread-pool server (several workers, and one "
             "worker reused by successive connections), under all interleavings within the budget including scheduling points inside the method bodies and the oneway thread; "
             "oracle: the context recorded inside every method (request annotations, correlation id, sequence number, flags, serializer, connection and peer) is that of its own "
             "request, also after a yield and inside the oneway thread; every RESULT on the wire carries only annotations set by the request it answers; CONNECTOK, CONNECTFAIL "
             "and ping replies carry none; each client sees only its own call's annotations; distinct = observation vectors",
        extra={"configs": len(cfgs), "budgets_p_r": sorted({(c["p"], c["r"]) for c in cfgs}), "bound_completed": "every execution within each configuration's (preemption, reordering) budget was run to completion"})
    return {"violations": stats.violations, "coverage": cov,
            "assumptions": ["response annotations are tagged with the id of the request that set them, so ownership is decided on the wire, not by the client's view alone"]}


def replay(ctx, payload):
    run_fn = make_run(payload["replay"]["cfg"])
    res = run_fn(Chooser([tuple(c) for c in payload["choices"]]))
    return {"outcome": res["outcome"], "violations": res["violations"]}
