"""
C10 - a remote iterator delivers exactly the server's items, once, in order; streams are forgotten when they should be.
Engine S: BFS over histories of next/close/release/reconnect/housekeeping/clock steps on 1-2 streams from 1-2 proxies, all
stream kinds and settings, on the real Proxy/Daemon pair (virtual clock) against a list model.
Engine T: all schedules of fetch / close / disconnect racing with housekeeping on one stream table (line granularity).
"""
import gc
import itertools

from vf.explore import Stats, HarnessError, Chooser, digest
from vf.common import coverage_from_stats, install_shims, explore_parallel, run_unit
from vf.values import show

PID = "C10"
ITEMS = {
    "empty": [],
    "three": ["%s-0", "%s-1", "%s-2"],
    "raises1": ["%s-0", ValueError, "%s-2"],
    "plainiter": ["%s-0", "%s-1"],
}
LETTERS = [("next", 0), ("next", 1), ("close", 0), ("close", 1), ("release", 0), ("release", 1), ("reconnect", 0), ("reconnect", 1),
           ("hk",), ("tick", 10), ("tick", 25), ("tick", 40), ("ping", 0), ("ping", 1), ("break", 0), ("break", 1), ("steal", 0), ("steal", 1)]


class MStream:
    def __init__(self, kind, tag, owner, now):
        self.kind = kind
        self.tag = tag
        self.items = ITEMS[kind]
        self.pos = 0
        self.alive = True        # known to the server
        self.owner = owner       # proxy index the server-side entry is attached to, or None (lingering)
        self.created = now
        self.linger_since = None
        self.client_done = False   # the client iterator saw StopIteration (it then answers StopIteration locally)
        self.client_closed = False


class Model:
    def __init__(self, cfg, now):
        self.cfg = cfg
        self.now = now
        self.streams = []
        self.connected = {}
        self.uncertain = False

    def server_disconnect(self, p):
        for s in self.streams:
            if s.alive and s.owner == p:
                if self.cfg["linger"] > 0:
                    s.owner = None
                    s.linger_since = self.now
                else:
                    s.alive = False

    def housekeeping(self):
        for s in self.streams:
            if not s.alive:
                continue
            if self.cfg["lifetime"] > 0 and self.now - s.created > self.cfg["lifetime"]:
                s.alive = False
            elif self.cfg["linger"] > 0 and s.linger_since is not None and self.now - s.linger_since > self.cfg["linger"]:
                s.alive = False

    def alive_count(self):
        return sum(1 for s in self.streams if s.alive)

    def key(self):
        return (self.now, tuple((s.kind, s.pos, s.alive, s.owner, s.created, s.linger_since, s.client_done, s.client_closed) for s in self.streams),
                tuple(sorted(self.connected.items())))


def play(cfg, hist, V, st):
    """replays a history on a fresh world, comparing every step with the model; returns (model key, real table digest) or None if diverged"""
    from vf.syncworld import SyncWorld
    from vf import targets, sched as S
    from Pyro5 import client, errors, core
    from Pyro5.callcontext import current_context
    import uuid
    S.TimeShim.fallback_clock = 1000.0
    # a client may give all its requests one correlation id (a server method calling on to another server inherits one, too)
    current_context.correlation_id = uuid.UUID(int=0xC10) if cfg.get("corr") else None
    w = SyncWorld(ITER_STREAMING=cfg["streaming"], ITER_STREAM_LIFETIME=float(cfg["lifetime"]), ITER_STREAM_LINGER=float(cfg["linger"]))
    ok = True
    iters = []
    try:
        d = w.daemon()
        tgt = targets.Streamer()
        d.register(tgt, "st")
        uri = "PYRO:st@h:1"
        proxies = [client.Proxy(uri) for _ in range(cfg["nproxies"])]
        m = Model(cfg, 1000.0)
        for i, p in enumerate(proxies):
            p._pyroBind()
            m.connected[i] = True
        # the streams are opened first (part of the configuration)
        for si, (kind, owner) in enumerate(cfg["streams"]):
            tag = "s%d" % si
            try:
                it = proxies[owner].stream(kind, tag)
                opened = ("ok", it)
            except errors.ProtocolError as x:
                opened = ("exc", "ProtocolError")
            except Exception as x:
                opened = ("exc", type(x).__name__)
            if not cfg["streaming"]:
                if opened[0] != "exc":
                    V("stream-opened-although-streaming-disabled", "%r" % (opened,), hist)
                iters.append(None)
                ms = MStream(kind, tag, owner, m.now)
                ms.alive = False
                ms.client_closed = True
                m.streams.append(ms)
            else:
                if opened[0] != "ok" or not isinstance(opened[1], client._StreamResultIterator):
                    V("stream-not-opened|%s" % kind, "%r" % (opened,), hist)
                    return None
                iters.append(opened[1])
                m.streams.append(MStream(kind, tag, owner, m.now))
            m.housekeeping()    # the multiplex event handler runs housekeeping after every request
            if len(d.streaming_responses) != m.alive_count():
                V("table-size-after-open", "server table has %d streams, model %d" % (len(d.streaming_responses), m.alive_count()), hist)
        for step in hist:
            st.points += 1
            op = step[0]
            if op == "tick":
                m.now += step[1]
                S.TimeShim.fallback_clock = m.now
            elif op == "hk":
                w.on_server(d._housekeeping)
                m.housekeeping()
            elif op == "break":
                # the connection is reset underneath the proxy, which only notices at its next request
                p = step[1]
                if p >= len(proxies) or m.connected[p] is not True or not cfg["streaming"]:
                    continue
                proxies[p]._pyroConnection.sock.do_reset()
                m.connected[p] = "broken"
                m.server_disconnect(p)
                m.housekeeping()
            elif op == "ping":
                p = step[1]
                if p >= len(proxies) or m.connected[p] is not True:
                    continue
                r = proxies[p].ping()
                if r != "pong":
                    V("ping-wrong-answer", "%r" % (r,), hist)
                m.housekeeping()
            elif op == "release":
                p = step[1]
                if p >= len(proxies) or not m.connected[p]:
                    continue
                proxies[p]._pyroRelease()
                was = m.connected[p]
                m.connected[p] = False
                if was is True:          # (a connection that was reset earlier is already gone for the server: nothing reaches it)
                    m.server_disconnect(p)
                    m.housekeeping()
            elif op == "reconnect":
                p = step[1]
                if p >= len(proxies) or m.connected[p]:
                    continue
                proxies[p]._pyroBind()
                m.connected[p] = True
                m.housekeeping()
            elif op == "close":
                si = step[1]
                if si >= len(iters) or iters[si] is None or m.connected[cfg["streams"][si][1]] == "broken":
                    continue
                s = m.streams[si]
                owner = cfg["streams"][si][1]
                try:
                    iters[si].close()
                    r = "ok"
                except Exception as x:
                    r = type(x).__name__
                if r != "ok":
                    V("close-raised|%s" % r, "closing stream %d raised %s" % (si, r), hist)
                # the client only tells the server when it still has a proxy, a connection and an in-sync sequence number
                if not s.client_done and not s.client_closed and m.connected[owner]:
                    s.alive = False
                    m.housekeeping()
                s.client_closed = True
            elif op == "steal":
                # the other connection asks the daemon for the next item of a stream it does not own (stream ids are not secrets between
                # clients of one application): the item goes to the asker, the server-side iterator advances like for any fetch
                si = step[1]
                if si >= len(iters) or iters[si] is None or cfg["nproxies"] < 2:
                    continue
                s = m.streams[si]
                thief = 1 - cfg["streams"][si][1]
                if m.connected[thief] is not True:
                    continue
                try:
                    got = ("item", proxies[thief]._pyroInvoke("get_next_stream_item", [iters[si].streamId], {}, objectId=core.DAEMON_NAME))
                except StopIteration:
                    got = ("stop", None)
                except errors.ConnectionClosedError as x:
                    got = ("closed", str(x)[:50])
                except errors.PyroError as x:
                    got = ("pyroerror", str(x)[:50])
                except ValueError as x:
                    got = ("genexc", str(x))
                except Exception as x:
                    got = ("other", type(x).__name__ + ":" + str(x)[:50])
                if not s.alive:
                    w0 = ("pyroerror", None)
                else:
                    if s.owner is None:
                        s.owner = thief
                        s.linger_since = None
                    if s.pos >= len(s.items):
                        w0 = ("stop", None)
                        s.alive = False
                    elif s.items[s.pos] is ValueError:
                        w0 = ("genexc", "gen-failure-%s" % s.tag)
                        s.alive = False
                        s.pos += 1
                    else:
                        w0 = ("item", s.items[s.pos] % s.tag)
                        s.pos += 1
                m.housekeeping()
                if not (got[0] == w0[0] and (w0[1] is None or got[1] == w0[1])):
                    V("fetch-by-other-connection-differs|%s-instead-of-%s" % (got[0], w0[0]), "stream %d fetched through the other connection: got %r, model expects %r" % (si, got, w0), hist)
                    ok = False
            elif op == "next":
                si = step[1]
                if si >= len(iters) or iters[si] is None:
                    continue
                s = m.streams[si]
                owner = cfg["streams"][si][1]
                try:
                    got = ("item", next(iters[si]))
                except StopIteration:
                    got = ("stop", None)
                except errors.ConnectionClosedError as x:
                    got = ("closed", str(x)[:50])
                except errors.PyroError as x:
                    got = ("pyroerror", str(x)[:50])
                except ValueError as x:
                    got = ("genexc", str(x))
                except Exception as x:
                    got = ("other", type(x).__name__ + ":" + str(x)[:50])
                # ---- model
                if s.client_done or s.client_closed:
                    want = [("stop", None)]                       # a finished / closed client iterator just stops
                elif m.connected[owner] is not True:
                    want = [("closed", None)]
                    m.connected[owner] = False       # a proxy drops its connection when a request fails on it
                elif not s.alive:
                    want = [("pyroerror", None)]
                    m.housekeeping()
                else:
                    if s.owner is None:
                        s.owner = owner
                        s.linger_since = None
                    if s.pos >= len(s.items):
                        want = [("stop", None)]
                        s.alive = False
                        s.client_done = True
                    elif s.items[s.pos] is ValueError:
                        want = [("genexc", "gen-failure-%s" % s.tag)]
                        s.alive = False
                        s.pos += 1
                    else:
                        want = [("item", s.items[s.pos] % s.tag)]
                        s.pos += 1
                    m.housekeeping()
                w0 = want[0]
                match = got[0] == w0[0] and (w0[1] is None or got[1] == w0[1])
                if not match:
                    if got[0] == "item":
                        kind = "item-after-forgotten" if w0[0] in ("pyroerror", "closed") else ("wrong-item" if w0[0] == "item" else "item-instead-of-%s" % w0[0])
                    else:
                        kind = "%s-instead-of-%s" % (got[0], w0[0])
                    V("next-differs|%s" % kind, "stream %d (%s): got %r, model expects %r" % (si, s.kind, got, w0), hist)
                    ok = False
                if got[0] == "stop" and not (s.client_done or s.client_closed):
                    s.client_done = True
            # table size after every step
            real = len(d.streaming_responses)
            if real != m.alive_count():
                V("table-size-differs|%s" % ("leak" if real > m.alive_count() else "lost"), "after %r the server table has %d streams, model %d alive" % (step, real, m.alive_count()), hist)
                ok = False
            if not ok:
                return None
        pulled = tuple(sorted(tgt.pulled.items()))
        for s in m.streams:
            if cfg["streaming"] and tgt.pulled.get(s.tag, 0) > s.pos and s.kind != "plainiter":
                V("server-iterator-advanced-further-than-delivered", "stream %s: %d items pulled, %d delivered" % (s.tag, tgt.pulled.get(s.tag), s.pos), hist)
        if w.net.pump_errors:
            V("daemon-loop-error|%s" % type(w.net.pump_errors[0]).__name__, "%r" % w.net.pump_errors[:2], hist)
        # implementation state the model does not describe is part of the state identity, so that histories which agree in the
        # model but left the client objects in different conditions are both extended
        impl = (tuple((it is None, it is not None and it.proxy is None, it is not None and it.proxy is not None and it.pyroseq == it.proxy._pyroSeq) for it in iters),
                tuple(p._pyroConnection is None for p in proxies))
        return (m.key(), pulled, impl)
    finally:
        for it in iters:
            if it is not None:
                it.proxy = None      # no close_stream traffic from __del__
        w.close()
        current_context.correlation_id = None


def expand_task(unit):
    cfg, hists = unit
    st = Stats()
    seen = set()
    out = []

    def V(fp, what, h):
        fp = "C10|" + fp
        if fp not in seen:
            seen.add(fp)
            st.violations.append({"fingerprint": fp, "what": "%s [cfg=%s history=%s]" % (what, cfg, h), "replay": {"cfg": cfg, "history": [list(s) for s in h]}})
    gc.disable()
    try:
        for h in hists:
            st.executions += 1
            k = play(cfg, h, V, st)
            if k is not None:
                out.append((digest(repr(k)), h))
            oc = "%s:%s" % (h[-1][0] if h else "init", "ok" if k is not None else "diverged")
            st.outcomes[oc] = st.outcomes.get(oc, 0) + 1
            gc.collect()
        if len(st.samples) < 1 and hists:
            st.samples.append({"cfg": cfg, "history": [list(s) for s in hists[-1]]})
    finally:
        gc.enable()
    return st, out


def configs(quick):
    out = []
    stream_sets = [[("three", 0)], [("empty", 0)], [("raises1", 0)], [("plainiter", 0)], [("three", 0), ("three", 0)], [("three", 0), ("raises1", 1)], [("plainiter", 0), ("three", 1)]]
    if quick:
        stream_sets = [stream_sets[0], stream_sets[2], stream_sets[4], stream_sets[5]]
    for ss in stream_sets:
        for lifetime in (0, 5):
            for linger in (0, 30):
                out.append({"streaming": True, "lifetime": lifetime, "linger": linger, "streams": ss, "nproxies": 1 + max(o for _, o in ss)})
    out.append({"streaming": False, "lifetime": 0, "linger": 30, "streams": [("three", 0)], "nproxies": 1})
    # non-initial start states: the search starts behind a fixed prefix (one of two stream-owning connections has already gone, some
    # time ago), so that "the other one goes later, then the first one's linger period passes" is within the depth bound
    for ss in ([("three", 0), ("raises1", 1)], [("plainiter", 0), ("three", 1)])[:1 if quick else 2]:
        for first in ("release", "break"):
            out.append({"streaming": True, "lifetime": 0, "linger": 30, "streams": ss, "nproxies": 2, "prefix": [(first, 0), ("tick", 10)]})
    # all requests of the client carry one correlation id
    for ss in ([("three", 0), ("three", 0)], [("three", 0), ("raises1", 1)]):
        out.append({"streaming": True, "lifetime": 0, "linger": 30, "streams": ss, "nproxies": 1 + max(o for _, o in ss), "corr": True})
    return out


def letters_for(cfg):
    ns = len(cfg["streams"])
    npx = cfg["nproxies"]
    out = []
    for l in LETTERS:
        if l[0] in ("next", "close", "steal") and l[1] >= ns:
            continue
        if l[0] == "steal" and npx < 2:
            continue
        if l[0] in ("release", "reconnect", "ping", "break") and l[1] >= npx:
            continue
        out.append(l)
    return out


# ------------------------------------------------------------------------------------------------ schedules
def make_sched_run(cfg):
    from vf import sched as S
    from vf.memnet import MemNet
    install_shims()
    from Pyro5 import server, config, errors, core
    from Pyro5.callcontext import current_context
    worlds = []
    daemons = []

    def cleanup():
        while daemons:
            try:
                daemons.pop().close()
            except Exception:
                pass
        while worlds:
            worlds.pop().uninstall()
    watch = S.watch_functions(server.DaemonObject.get_next_stream_item, server.DaemonObject.close_stream, server.Daemon._clientDisconnect, server.Daemon._housekeeping, follow=True)

    class Conn:
        pass

    def build():
        # a real daemon (multiplex transport on the in-memory network; its loop is not run: the stream methods are driven directly)
        config.SERVERTYPE = "multiplex"
        net = MemNet()
        net.install()
        worlds.append(net)
        d = server.Daemon(host="h", port=1)
        daemons.append(d)
        dobj = d.objectsById[core.DAEMON_NAME]
        conn = Conn()
        other = Conn()
        pulled = []

        def gen():
            for i in range(2):
                pulled.append(i)
                yield "it%d" % i
        d.streaming_responses["sid"] = (conn, 1000.0, 0, gen())
        d.streaming_responses["other"] = (other, 1000.0, 0, iter(["x"]))
        return d, dobj, conn, pulled

    def op_fn(name, d, dobj, conn):
        def fetch():
            current_context.client = conn
            try:
                return ("item", dobj.get_next_stream_item("sid"))
            except StopIteration:
                return ("stop",)
            except errors.PyroError as x:
                return ("terminated",)
        if name in ("fetch", "fetch2"):
            return fetch
        if name == "close":
            return lambda: ("closed", dobj.close_stream("sid"))
        if name == "disconnect":
            return lambda: ("disc", d._clientDisconnect(conn))
        if name == "hk":
            return lambda: ("hk", d._housekeeping())
        raise AssertionError(name)

    def serial_outcomes():
        outs = set()
        for perm in itertools.permutations(range(len(cfg["ops"]))):
            config.ITER_STREAM_LIFETIME = cfg["lifetime"]
            config.ITER_STREAM_LINGER = cfg["linger"]
            S.TimeShim.fallback_clock = cfg["now"]
            d, dobj, conn, pulled = build()
            res = [None] * len(cfg["ops"])
            for i in perm:
                try:
                    res[i] = op_fn(cfg["ops"][i], d, dobj, conn)()
                except Exception as x:
                    res[i] = ("internal", type(x).__name__)
            outs.add((tuple(r[:2] if r[0] == "item" else r[:1] for r in res), tuple(sorted(d.streaming_responses)), len(pulled)))
            cleanup()
        return outs

    cache = {}

    def run_fn(chooser):
        config.reset(False)
        if "serial" not in cache:
            cache["serial"] = serial_outcomes()      # the outcomes of all serial orders, computed once per configuration
        serial = cache["serial"]
        config.ITER_STREAM_LIFETIME = cfg["lifetime"]
        config.ITER_STREAM_LINGER = cfg["linger"]
        sch = S.Scheduler(chooser, watch=watch)
        sch.clock = cfg["now"]
        sch.install()
        violations = []
        try:
            d, dobj, conn, pulled = build()
            res = [None] * len(cfg["ops"])

            def body(i):
                def f():
                    try:
                        res[i] = op_fn(cfg["ops"][i], d, dobj, conn)()
                    except S.AbortExecution:
                        raise
                    except Exception as x:
                        res[i] = ("internal", type(x).__name__)
                return f
            for i in range(len(cfg["ops"])):
                sch.spawn(body(i), "t%d-%s" % (i, cfg["ops"][i]))
            outcome = sch.run()

            def V(fp, what):
                violations.append({"fingerprint": "C10|" + fp, "what": "%s [cfg=%s]" % (what, cfg), "replay": {"sched_cfg": cfg}})
            if outcome != "quiescent":
                V("stream-table-deadlock", "%s %r" % (outcome, sch.threads))
            for i, r in enumerate(res):
                if r is not None and r[0] == "internal":
                    V("internal-error|%s|%s" % (cfg["ops"][i], r[1]), "operation %s raised %s while racing with %s" % (cfg["ops"][i], r[1], [o for j, o in enumerate(cfg["ops"]) if j != i]))
            obs = (tuple(r[:2] if r and r[0] == "item" else (r[:1] if r else ("none",)) for r in res), tuple(sorted(d.streaming_responses)), len(pulled))
            if not any(r is not None and r[0] == "internal" for r in res) and obs not in serial:
                V("stream-table-not-serialisable|%s" % "+".join(sorted(cfg["ops"])), "observed %r, serial orders give %r" % (obs, sorted(serial)))
            return {"outcome": repr((outcome, obs)), "violations": violations, "sample": {"cfg": cfg, "observed": repr(obs)}}
        finally:
            sch.teardown()
            current_context.client = None
            cleanup()
    return run_fn


def sched_task(unit):
    return run_unit(make_sched_run, unit)


def sched_configs(quick):
    out = []
    combos = [["fetch", "hk"], ["close", "hk"], ["disconnect", "hk"], ["fetch", "close"], ["fetch", "disconnect"], ["fetch", "fetch2"],
              ["fetch", "hk", "close"], ["fetch", "disconnect", "hk"], ["close", "disconnect"]]
    for ops in combos:
        for (lifetime, linger, now) in [(5.0, 30.0, 1010.0), (0.0, 30.0, 1000.0), (5.0, 0.0, 1010.0)]:
            if quick and len(ops) == 3 and lifetime == 0.0:
                continue
            out.append({"ops": ops, "lifetime": lifetime, "linger": linger, "now": now, "p": 2 if (quick or len(ops) == 3) else 3, "r": 10 ** 6 if len(ops) == 2 else 6})
    return out


def run(ctx):
    quick = ctx.quick
    depth = 4 if quick else 5
    total = Stats()
    cfgs = configs(quick)
    seen = set()
    frontier = {i: [[tuple(x) for x in cfgs[i].get("prefix", [])]] for i in range(len(cfgs))}
    cap = 10 ** 9 if quick else 10 ** 9
    capped = False
    for level in range(depth + 1):
        units = []
        for ci, hs in frontier.items():
            for chunk in [hs[j:j + 40] for j in range(0, len(hs), 40)]:
                units.append((cfgs[ci], chunk, ci))
        nxt = {i: [] for i in frontier}
        level_out = []
        for res in ctx.pmap(_expand_wrapper, units):
            st, out, ci = res
            total.merge(st)
            level_out.extend((ci, key, h) for key, h in out)
        # deterministic whatever order the workers finish in: the shortest-then-smallest history represents a state
        level_out.sort(key=lambda t: (t[0], t[1], len(t[2]), repr(t[2])))
        for ci, key, h in level_out:
            for key, h in [(key, h)]:
                k = (ci, key)
                if k in seen:
                    continue
                seen.add(k)
                if level < depth:
                    if sum(len(v) for v in nxt.values()) < cap * (level + 1):
                        for l in letters_for(cfgs[ci]):
                            nxt[ci].append(h + [l])
                    else:
                        capped = True
        frontier = nxt
    total.states = {repr(k) for k in seen}
    scfgs = sched_configs(quick)
    sst = explore_parallel(ctx, sched_task, scfgs, lambda c: c["p"], lambda c: c["r"])
    total.violations.extend(sst.violations)
    total.extra["schedules_explored"] = sst.executions
    total.extra["schedule_points"] = sst.points
    total.extra["schedule_outcomes"] = len(sst.outcomes)
    total.executions += sst.executions
    total.points += sst.points
    cov = coverage_from_stats(
        total,
        rule="(1) BFS (states deduplicated by the model state and the server-side pull counters) over histories of next/close/release/reconnect/connection reset under the proxy/ping/housekeeping/clock+10/"
             "clock+25/clock+40 steps to depth %d (behind a fixed two-step prefix in some configurations; with and without a client-chosen correlation id) on 1-2 streams from 1-2 proxies, stream kinds {three items, empty, raising at index 1, plain iterator}, ITER_STREAM_LIFETIME {0,5} x "
             "ITER_STREAM_LINGER {0,30}, plus streaming disabled, on a real Proxy/Daemon pair with a virtual clock; every delivered item/StopIteration/exception/error "
             "and the size of the server's stream table after every step are compared with a list model; (2) every schedule (line granularity, preemption bound 2-3) of "
             "fetch / second fetch / close / disconnect / housekeeping racing on one stream table: no internal error, outcome equal to that of some serial order; "
             "distinct = distinct model states" % depth,
        nontrivial=len(seen), extra={"state_cap_hit": capped, "configurations": len(cfgs)})
    cov["exhaustive"] = not capped
    return {"violations": total.violations, "coverage": cov,
            "assumptions": ["expiry takes effect at the first housekeeping pass after the deadline (the multiplex event handler runs one after every request)",
                            "schedule part drives the stream methods of a real daemon directly"]}


def _expand_wrapper(unit):
    cfg, hists, ci = unit
    st, out = expand_task((cfg, hists))
    return st, out, ci


def replay(ctx, payload):
    r = payload["replay"]
    if "sched_cfg" in r:
        res = make_sched_run(r["sched_cfg"])(Chooser([tuple(c) for c in payload["choices"]]))
        return {"violations": res["violations"]}
    st, _ = expand_task((r["cfg"], [[tuple(s) for s in r["history"]]]))
    return {"violations": st.violations}
