"""
C08 - nothing is invoked on a connection before an accepted handshake.
Engine N+T whole system (real requestLoop of both server types): a raw peer sends a first message (every type, valid or malformed,
any serializer id, any handshake payload shape) with further messages pipelined behind it; every validator behaviour; a witness client.
"""
import itertools

from vf.explore import Stats, HarnessError, Chooser
from vf.common import coverage_from_stats, explore_parallel, run_unit
from vf.values import show

PID = "C08"

FIRSTS = ["connect-ok", "connect-bad-secret", "connect-object-none", "connect-object-empty", "connect-object-zero", "connect-object-list", "connect-ok-json", "connect-ok-marshal", "connect-ok-msgpack", "connect-daemon", "connect-unknown-object", "connect-unregistered-object", "connect-dead-weak-object", "connect-unknown-serializer", "connect-serializer-0",
          "connect-no-handshake-key", "connect-no-object-key", "connect-nondict", "connect-list", "connect-undecodable", "connect-empty-payload",
          "type-connectok", "type-connectfail", "type-invoke", "type-invoke-cut-payload", "type-invoke-oneway", "type-invoke-batch", "type-result", "type-ping", "type-0", "type-7", "type-255",
          "bad-magic", "bad-version", "garbage16", "http-request", "truncated-header", "nothing"]
VALIDATORS = ["accept", "return-none", "return-dict", "return-unserialisable", "raise-ValueError", "raise-SecurityError", "raise-PyroError", "raise-KeyError", "raise-Custom",
              "raise-ConnectionClosedError", "raise-empty-ValueError", "raise-bare-PermissionError", "raise-AssertionError", "raise-StopIteration"]
PIPELINES = [[], ["invoke"], ["oneway"], ["batch"], ["ping"], ["invoke", "invoke"], ["oneway", "invoke", "ping"]]
MUST_REFUSE_WITH_CONNECTFAIL = ("type-", "connect-unknown-object")   # + validator raised


def make_run(cfg):
    from vf import sched as S
    from vf.schedworld import SchedWorld
    from vf import targets
    from Pyro5 import client, errors, protocol, server, serializers, socketutil, core
    first, validator, pipeline, together = cfg["first"], cfg["validator"], cfg["pipeline"], cfg["together"]

    class VDaemon(server.Daemon):
        def validateHandshake(self, conn, data):
            self.vcalls = getattr(self, "vcalls", 0) + 1
            if validator == "accept":
                return "hello"
            if validator == "by-data":       # a validator that looks at what this peer presented
                if data != "hello":
                    raise ValueError("validator says no (by-data)")
                return "hello"
            if validator == "return-none":
                return None
            if validator == "return-dict":
                return {"a": [1, 2]}
            if validator == "return-unserialisable":
                return targets.Unserialisable()
            if validator == "raise-ValueError":
                raise ValueError("validator says no (ValueError)")
            if validator == "raise-SecurityError":
                raise errors.SecurityError("validator says no (SecurityError)")
            if validator == "raise-PyroError":
                raise errors.PyroError("validator says no (PyroError)")
            if validator == "raise-KeyError":
                raise KeyError("validator says no (KeyError)")
            if validator == "raise-ConnectionClosedError":
                raise errors.ConnectionClosedError("validator says no (ConnectionClosedError)")
            if validator == "raise-empty-ValueError":
                raise ValueError("")
            if validator == "raise-bare-PermissionError":
                raise PermissionError()
            if validator == "raise-AssertionError":
                assert data == "never-matches"
            if validator == "raise-StopIteration":
                raise StopIteration("validator says no (StopIteration)")
            raise targets.CustomError("validator says no (Custom)")

    def msg(mtype, flags, seq, serid, payload):
        return bytes(protocol.SendingMessage(mtype, flags, seq, serid, payload).data)

    def invoke_bytes(kind, sername="serpent", seq=5):
        ser = serializers.serializers[sername]
        if kind == "invoke":
            return msg(protocol.MSG_INVOKE, 0, seq, ser.serializer_id, ser.dumpsCall("obj", "hit", ("pipelined",), {}))
        if kind == "oneway":
            return msg(protocol.MSG_INVOKE, protocol.FLAGS_ONEWAY, seq, ser.serializer_id, ser.dumpsCall("obj", "hit_oneway", ("pipelined",), {}))
        if kind == "batch":
            return msg(protocol.MSG_INVOKE, protocol.FLAGS_BATCH, seq, ser.serializer_id, ser.dumpsCall("obj", "<batch>", [("hit", ("batched",), {})], None))
        if kind == "ping":
            return msg(protocol.MSG_PING, 0, seq, 42, b"ping")

    def first_bytes():
        serp = serializers.serializers["serpent"]
        ok = {"handshake": "hello", "object": "obj"}
        if first.startswith("connect-ok"):
            sername = first[11:] or "serpent"
            ser = serializers.serializers[sername]
            return msg(protocol.MSG_CONNECT, 0, 1, ser.serializer_id, ser.dumps(ok))
        table = {
            "connect-daemon": lambda: msg(protocol.MSG_CONNECT, 0, 1, 1, serp.dumps({"handshake": "hello", "object": core.DAEMON_NAME})),
            "connect-bad-secret": lambda: msg(protocol.MSG_CONNECT, 0, 1, 1, serp.dumps({"handshake": "evil", "object": "obj"})),
            "connect-object-none": lambda: msg(protocol.MSG_CONNECT, 0, 1, 1, serp.dumps({"handshake": "hello", "object": None})),
            "connect-object-empty": lambda: msg(protocol.MSG_CONNECT, 0, 1, 1, serp.dumps({"handshake": "hello", "object": ""})),
            "connect-object-zero": lambda: msg(protocol.MSG_CONNECT, 0, 1, 1, serp.dumps({"handshake": "hello", "object": 0})),
            "connect-object-list": lambda: msg(protocol.MSG_CONNECT, 0, 1, 1, serp.dumps({"handshake": "hello", "object": []})),
            "connect-unknown-object": lambda: msg(protocol.MSG_CONNECT, 0, 1, 1, serp.dumps({"handshake": "hello", "object": "nope"})),
            "connect-unregistered-object": lambda: msg(protocol.MSG_CONNECT, 0, 1, 1, serp.dumps({"handshake": "hello", "object": "gone"})),
            "connect-dead-weak-object": lambda: msg(protocol.MSG_CONNECT, 0, 1, 1, serp.dumps({"handshake": "hello", "object": "dead"})),
            "connect-unknown-serializer": lambda: msg(protocol.MSG_CONNECT, 0, 1, 99, serp.dumps(ok)),
            "connect-serializer-0": lambda: msg(protocol.MSG_CONNECT, 0, 1, 0, serp.dumps(ok)),
            "connect-no-handshake-key": lambda: msg(protocol.MSG_CONNECT, 0, 1, 1, serp.dumps({"object": "obj"})),
            "connect-no-object-key": lambda: msg(protocol.MSG_CONNECT, 0, 1, 1, serp.dumps({"handshake": "hello"})),
            "connect-nondict": lambda: msg(protocol.MSG_CONNECT, 0, 1, 1, serp.dumps("just a string")),
            "connect-list": lambda: msg(protocol.MSG_CONNECT, 0, 1, 1, serp.dumps(["handshake", "object"])),
            "connect-undecodable": lambda: msg(protocol.MSG_CONNECT, 0, 1, 1, b"\xff\xfe\x00garbage that is no serpent"),
            "connect-empty-payload": lambda: msg(protocol.MSG_CONNECT, 0, 1, 1, b""),
            "type-connectok": lambda: msg(protocol.MSG_CONNECTOK, 0, 1, 1, serp.dumps(ok)),
            "type-connectfail": lambda: msg(protocol.MSG_CONNECTFAIL, 0, 1, 1, serp.dumps("x")),
            "type-invoke": lambda: invoke_bytes("invoke", seq=1),
            # a complete header of the wrong type whose announced payload never arrives in full (the verdict needs the header only)
            "type-invoke-cut-payload": lambda: invoke_bytes("invoke", seq=1)[:-5],
            "type-invoke-oneway": lambda: invoke_bytes("oneway", seq=1),
            "type-invoke-batch": lambda: invoke_bytes("batch", seq=1),
            "type-result": lambda: msg(protocol.MSG_RESULT, 0, 1, 1, serp.dumps("r")),
            "type-ping": lambda: invoke_bytes("ping", seq=1),
            "type-0": lambda: msg(0, 0, 1, 1, serp.dumps(ok)),
            "type-7": lambda: msg(7, 0, 1, 1, serp.dumps(ok)),
            "type-255": lambda: msg(255, 0, 1, 1, serp.dumps(ok)),
            "bad-magic": lambda: msg(protocol.MSG_CONNECT, 0, 1, 1, serp.dumps(ok))[:38] + b"\x00\x00" + msg(protocol.MSG_CONNECT, 0, 1, 1, serp.dumps(ok))[40:],
            "bad-version": lambda: b"PYRO\x00\x01" + msg(protocol.MSG_CONNECT, 0, 1, 1, serp.dumps(ok))[6:],
            "garbage16": lambda: b"!" * 16,
            "http-request": lambda: b"GET /pyro/ HTTP/1.1\r\nHost: x\r\n\r\n",
            "truncated-header": lambda: msg(protocol.MSG_CONNECT, 0, 1, 1, serp.dumps(ok))[:17],
            "nothing": lambda: b"",
        }
        return table[first]()

    def expect_accept():
        if not first.startswith("connect-ok") and first != "connect-daemon":
            return False
        return validator in ("accept", "return-none", "return-dict", "by-data")

    watch = S.watch_functions(server.Daemon._handshake) if cfg.get("watch_handshake") else None

    def run_fn(chooser):
        w = SchedWorld(chooser, servertype=cfg["server"], watch=watch, allow_ticks=False, max_idle_wakes=20, THREADPOOL_SIZE=3)
        violations = []
        try:
            d = w.daemon(VDaemon)
            tgt = targets.LogTarget()
            d.register(tgt, "obj")
            w.serve(d)
            got = {"replies": [], "eof": False, "error": None, "witness": None}

            def attacker():
                if first == "connect-unregistered-object":
                    # an object that was used through an ordinary proxy and unregistered afterwards is unknown again
                    gone = targets.LogTarget()
                    d.register(gone, "gone")
                    with client.Proxy("PYRO:gone@h:1") as gp:
                        gp._pyroHandshake = "hello"
                        gp.token("warm-up")
                    d.unregister("gone")
                if first == "connect-dead-weak-object":
                    # a weakly registered object that has just died while the daemon's finalizer for it has not run yet (collection timing):
                    # the registry still holds the dead reference
                    import weakref
                    d.objectsById["dead"] = weakref.ref(targets.LogTarget())
                sock = w.net.create_socket(connect=("h", 1))
                conn = socketutil.SocketConnection(sock)
                try:
                    data = first_bytes()
                    rest = b"".join(invoke_bytes(k, seq=10 + i) for i, k in enumerate(pipeline))
                    try:
                        if together:
                            if data + rest:
                                sock.sendall(data + rest)
                        else:
                            if data:
                                sock.sendall(data)
                    except OSError as x:
                        got["error"] = "send:" + type(x).__name__
                    sent_rest = together
                    sock.settimeout(3.0)
                    for _ in range(8):
                        try:
                            m = protocol.recv_stub(conn)
                            got["replies"].append((m.type, m.flags, bytes(m.data), m.serializer_id))
                            if not sent_rest:
                                sent_rest = True
                                if rest:
                                    try:
                                        sock.sendall(rest)
                                    except OSError as x:
                                        got["error"] = "send2:" + type(x).__name__
                        except errors.ConnectionClosedError:
                            got["eof"] = True
                            break
                        except errors.TimeoutError:
                            if not sent_rest and rest:
                                sent_rest = True
                                try:
                                    sock.sendall(rest)
                                except OSError as x:
                                    got["error"] = "send2:" + type(x).__name__
                                continue
                            got["error"] = "timeout"
                            break
                        except Exception as x:
                            got["error"] = "recv:" + type(x).__name__
                            break
                finally:
                    conn.close()

            def witness():
                try:
                    with client.Proxy("PYRO:obj@h:1") as p:
                        p._pyroHandshake = "hello"
                        r = p.token("witness")
                    got["witness"] = ("ok", r)
                except S.AbortExecution:
                    raise
                except Exception as x:
                    got["witness"] = ("exc", x)
            w.client(attacker, "attacker")
            if validator in ("accept", "return-none", "return-dict", "by-data"):
                w.client(witness, "witness")
            outcome = w.run()

            def V(fp, what):
                violations.append({"fingerprint": "C08|" + fp, "what": "%s [cfg=%s]" % (what, cfg), "replay": {"cfg": cfg}})
            if outcome == "deadlock":
                V("peer-or-witness-hangs|%s" % first, "%r" % w.sch.threads)
            elif outcome != "quiescent":
                raise HarnessError("C08 ended with %s" % outcome)
            if w.loop_errors:
                V("daemon-loop-died|%s" % type(w.loop_errors[0][1]).__name__, "%r" % w.loop_errors)
            for name, x in w.sch.errors:
                if not name.startswith("oneway"):
                    V("uncaught-in-thread|%s|%s" % (name.split("-")[0], type(x).__name__), "%r" % x)
            hits = [e for e in tgt.log if e[0] != "token"]
            types = [r[0] for r in got["replies"]]
            accepted = protocol.MSG_CONNECTOK in types
            acc = expect_accept()
            if hits and not accepted:
                V("method-executed-without-accepted-handshake|%s|%s" % (first if not first.startswith("connect-ok") else "connect-ok", validator if first.startswith("connect") else "-"),
                  "log %r, replies %r" % (hits, types))
            if accepted and not acc:
                V("handshake-accepted-wrongly|%s|%s" % (first if not first.startswith("connect-ok") else "connect-ok", validator), "replies %r" % (types,))
            if not acc:
                if hits:
                    V("method-executed-on-refused-connection|%s|%s" % (first if not first.startswith("connect-ok") else "connect-ok", validator if first.startswith("connect") else "-"), "log %r" % hits)
                if protocol.MSG_RESULT in types:
                    V("result-sent-on-refused-connection|%s" % first, "replies %r" % (types,))
                named = first.startswith("type-") or first in ("connect-unknown-object", "connect-unregistered-object", "connect-object-none", "connect-object-empty", "connect-object-zero") \
                    or (first == "connect-bad-secret" and validator == "by-data") or (first.startswith("connect-ok") and validator.startswith("raise-")) \
                    or (first == "connect-daemon" and validator.startswith("raise-"))
                if named:
                    reason = "unknown object" if "object" in first else ("invalid msg type" if first.startswith("type-") else "validator says no")
                    if validator in ("raise-empty-ValueError", "raise-bare-PermissionError", "raise-AssertionError") and first.startswith("connect"):
                        reason = ""      # the exception carries no text: the refusal itself is what is owed
                    if validator == "raise-ConnectionClosedError" and first.startswith("connect"):
                        pass      # the daemon treats this class as 'peer went away': closing without a reply is what the code documents
                    elif not types or types[0] != protocol.MSG_CONNECTFAIL:
                        V("no-connectfail|%s|%s" % ("non-connect-first" if first.startswith("type-") else first if not first.startswith("connect-ok") else "validator-raised", validator if first.startswith("connect") else "-"),
                          "first thing the peer read: %r (error %r, eof %r)" % (types[:1], got["error"], got["eof"]))
                    else:
                        ser = serializers.serializers_by_id.get(got["replies"][0][3])
                        try:
                            text = ser.loads(got["replies"][0][2])
                        except Exception as x:
                            text = "<undecodable: %r>" % x
                        # the validator's own message must be carried; for the daemon's own refusals any non-empty explanation will do
                        # (the wording is not part of the property)
                        needs_exact = reason == "validator says no"
                        if (needs_exact and reason not in str(text)) or (not needs_exact and reason != "" and not str(text).strip()):
                            V("connectfail-without-reason|%s" % reason.replace(" ", "-"), "reason text %r" % (text,))
                        if len(types) > 1:
                            V("traffic-after-connectfail", "replies %r" % (types,))
                waiting_for_more = first == "truncated-header"      # the daemon legitimately waits for the rest of the header
                if not got["eof"] and not waiting_for_more and got["error"] not in ("send:BrokenPipeError", "send2:BrokenPipeError", "send2:ConnectionResetError", "recv:ConnectionResetError") and first != "nothing":
                    V("refused-connection-not-closed|%s" % first, "the peer saw no end of stream: error=%r replies=%r" % (got["error"], types))
            else:
                if not accepted:
                    V("valid-handshake-refused|%s|%s" % (first, validator), "replies %r error %r" % (types, got["error"]))
                else:
                    want_hits = [k for k in pipeline if k in ("invoke", "oneway", "batch")]
                    if len(hits) != len(want_hits):
                        V("pipelined-calls-after-accepted-handshake|%d-of-%d" % (len(hits), len(want_hits)), "log %r" % hits)
            if got["witness"] is not None and got["witness"] != ("ok", "witness"):
                V("witness-disturbed|%s" % first, "%r" % (got["witness"],))
            obs = (first, validator, outcome, tuple(types), got["eof"], got["error"], len(hits), getattr(d, "vcalls", 0))
            return {"outcome": repr(obs), "violations": violations, "sample": {"cfg": cfg, "replies": types, "log": tgt.log[:4]}}
        finally:
            w.close()
    return run_fn


def task(unit):
    return run_unit(make_run, unit)


def configs(quick):
    out = []
    for server in ("multiplex", "thread"):
        for first in FIRSTS:
            vals = VALIDATORS if first.startswith("connect-ok") or first == "connect-daemon" else (["by-data"] if first == "connect-bad-secret" else ["accept"])
            if quick and first in ("connect-ok-json", "connect-ok-marshal", "connect-ok-msgpack", "connect-daemon"):
                vals = ["accept", "raise-ValueError"]
            for validator in vals:
                for pipeline in PIPELINES:
                    for together in (True, False):
                        if quick and pipeline in (["ping"], ["invoke", "invoke"]) and not first.startswith(("connect-ok", "type-invoke")):
                            continue
                        if quick and not together and pipeline == []:
                            continue
                        p = 1 if (server == "multiplex" and (not quick or first in ("connect-ok", "type-invoke", "connect-unknown-object"))) else 0
                        out.append({"server": server, "first": first, "validator": validator, "pipeline": pipeline, "together": together, "p": p, "r": 1 if quick else 2, "horizon": 3000})
    # two handshakes at once on the thread-pool server: every line of Daemon._handshake is a scheduling point
    for pipeline in ([["invoke"]] if quick else [["invoke"], ["oneway", "invoke", "ping"], []]):
        for together in (True, False):
            out.append({"server": "thread", "first": "connect-bad-secret", "validator": "by-data", "pipeline": pipeline, "together": together, "p": 1, "r": 1 if quick else 3,
                        "horizon": 4000, "watch_handshake": True})
    return out


def run(ctx):
    cfgs = configs(ctx.quick)
    stats = explore_parallel(ctx, task, cfgs, lambda c: c["p"], lambda c: c["r"])
    cov = coverage_from_stats(
        stats,
        rule="first message {%d kinds: valid CONNECT with each serializer, CONNECT for the daemon object / an unknown object / unknown or zero serializer id / payload without "
             "keys, non-dict, undecodable, empty; every other message type 0-7,255 incl. INVOKE/oneway/batch of a logging method; bad magic/version, garbage, an HTTP request, "
             "a truncated header, nothing} x validator {%d behaviours} x pipeline {7 message sequences behind it, in the same write or after the reply} x both server types, "
             "executed by a raw peer against the real requestLoop with a witness client, under all message-level interleavings within the per-config budget; "
             "plus a rejected and an accepted handshake racing on the thread-pool server with every line of Daemon._handshake a scheduling point (preemption bound 1/2); oracle: the "
             "logging object records nothing unless the peer received CONNECTOK, which only valid accepted handshakes get; the three named refusals yield CONNECTFAIL with "
             "the reason followed by end of stream; no RESULT on a refused connection; witness served; distinct = observation vectors" % (len(FIRSTS), len(VALIDATORS)),
        extra={"configs": len(cfgs), "budgets_p_r": sorted({(c["p"], c["r"]) for c in cfgs}), "bound_completed": "every execution within each configuration's (preemption, reordering) budget was run to completion"})
    return {"violations": stats.violations, "coverage": cov,
            "assumptions": ["a validator raising Pyro's ConnectionClosedError is treated by the daemon as 'peer went away' (no reply owed)",
                            "pre-connected socket pairs handed to a daemon are exempt by the statement and not examined"]}


def replay(ctx, payload):
    run_fn = make_run(payload["replay"]["cfg"])
    res = run_fn(Chooser([tuple(c) for c in payload["choices"]]))
    return {"outcome": res["outcome"], "violations": res["violations"]}
