"""
C03 - a call returns its own reply or fails; never another call's answer.
Engine N+T: one client thread, one real daemon (multiplex / thread-pool) on the in-memory network with a wire adversary whose
per-message decision (deliver / lose / cut+reset / reset before or after processing / replay a stale reply / rewrite the
sequence number / duplicate) is a choice of the explorer; bounded number of faults per history.
"""
import itertools

from vf.explore import Stats, HarnessError, Chooser
from vf.common import coverage_from_stats, explore_parallel, run_unit
from vf.values import show

PID = "C03"
CALLS = ["normal", "raiser", "oneway", "batch", "attr", "stream"]
CUTS = ["0", "6", "39", "40", "mid", "last"]


def make_run(cfg):
    from vf import sched as S
    from vf.schedworld import SchedWorld
    from vf import targets
    from Pyro5 import client, errors, protocol

    history = cfg["history"]
    retries = cfg["retries"]

    def run_fn(chooser):
        w = SchedWorld(chooser, servertype=cfg["server"], max_idle_wakes=30, allow_ticks=False)
        violations = []
        try:
            d = w.daemon()
            tgt = targets.TokenTarget()
            uri = d.register(tgt, "tok")
            w.serve(d)
            state = {"active": True, "replies": [], "pending": {}, "faults": [], "oneway_replies": 0}
            cuts = CUTS if cfg.get("all_cuts") else CUTS[1:4] + ["last"]
            menu_reply = ["deliver", "lost", "reset-before", "reset-after", "stale", "seq+1", "dup"] + ["cut:" + c for c in cuts]
            menu_oneway = ["deliver", "reset-before", "reset-after"]
            menu_handshake = ["deliver", "lost", "reset", "cut:10"]

            def reset_pair(csock):
                csock.reset = True
                csock.eof = True
                if csock.peer is not None:
                    csock.peer.reset = True
                    csock.peer.eof = True

            def hook(sock, data):
                if not state["active"] or len(data) < 40 or data[:4] != b"PYRO":
                    return data
                mtype = data[6]
                flags = int.from_bytes(data[8:10], "big")
                if sock.name.startswith("c"):
                    if mtype != protocol.MSG_INVOKE:
                        return data
                    oneway = bool(flags & protocol.FLAGS_ONEWAY)
                    menu = menu_oneway if oneway else menu_reply
                    i = chooser.choose("wire", len(menu), [(0, 0)] + [(1, 0)] * (len(menu) - 1))
                    f = menu[i]
                    if f == "stale" and not state["replies"]:
                        f = "deliver"
                    state["faults"].append(f)
                    if f == "reset-before":
                        reset_pair(sock)
                        return None
                    if oneway:
                        if f == "reset-after":
                            state["pending"][sock.peer.fd] = "reset-after-oneway"
                            sock.peer.buf.extend(data)
                            sock.peer.bytes_in += len(data)
                            sock.sent.extend(data)
                            # the request is in the server's buffer; the connection dies afterwards (from the client's view at once)
                            sock.reset = True
                            sock.eof = True
                            return None
                        return data
                    state["pending"][sock.peer.fd] = f
                    return data
                # server -> client
                if mtype == protocol.MSG_CONNECTOK:
                    # the answer to a (re)connect handshake is a message like any other
                    i = chooser.choose("wire-handshake", len(menu_handshake), [(0, 0)] + [(1, 0)] * (len(menu_handshake) - 1))
                    f = menu_handshake[i]
                    state["faults"].append("hs-" + f if f != "deliver" else f)
                    c = sock.peer
                    if f == "lost":
                        return None
                    if f == "reset":
                        reset_pair(c)
                        return None
                    if f == "cut:10":
                        c.buf.extend(data[:10])
                        c.bytes_in += 10
                        reset_pair(c)
                        return None
                    return data
                if mtype not in (protocol.MSG_RESULT,):
                    return data
                f = state["pending"].pop(sock.fd, "deliver")
                earlier = list(state["replies"])
                state["replies"].append(bytes(data))
                c = sock.peer
                if f == "deliver":
                    return data
                if f == "lost":
                    return None
                if f == "reset-after":
                    reset_pair(c)
                    return None
                if f.startswith("cut:"):
                    k = {"0": 0, "6": 6, "39": 39, "40": 40, "mid": len(data) // 2, "last": len(data) - 1}[f[4:]]
                    c.buf.extend(data[:k])
                    c.bytes_in += k
                    reset_pair(c)
                    return None
                if f == "stale":
                    c.buf.extend(earlier[-1])
                    c.bytes_in += len(earlier[-1])
                    return data
                if f == "seq+1":
                    seq = (int.from_bytes(data[10:12], "big") + 1) & 0xffff
                    return data[:10] + seq.to_bytes(2, "big") + data[12:]
                if f == "dup":
                    return data + data
                return data
            w.net.wire_hook = hook
            results = []

            def one_call(proxy, kind, token):
                """returns ('ok', value) | ('exc', exception)"""
                try:
                    if kind == "normal":
                        return ("ok", proxy.echo(token))
                    if kind == "raiser":
                        return ("ok", proxy.raiser(token))
                    if kind == "oneway":
                        return ("ok", proxy.ow(token))
                    if kind == "oneway-blob":      # a oneway call whose only argument is a blob that stays serialized
                        return ("ok", proxy.ow_blob(client.SerializedBlob(token, [token, 1])))
                    if kind == "blob":
                        return ("ok", proxy.echo_blob(client.SerializedBlob(token, [token, 1])))
                    if kind == "batch":
                        b = client.BatchProxy(proxy)
                        b.echo(token + "a")
                        b.echo(token + "b")
                        return ("ok", list(b()))
                    if kind == "rebatch":      # a oneway batch, then the same BatchProxy used again
                        b = client.BatchProxy(proxy)
                        b.echo(token + "a")
                        first = b(oneway=True)
                        b.echo(token + "b")
                        return ("ok", [first] + list(b()))
                    if kind == "attr":
                        return ("ok", proxy.attr)
                    if kind == "stream":
                        it = proxy.stream(token)
                        try:
                            return ("ok", next(it))
                        finally:
                            it.proxy = None
                except S.AbortExecution:
                    raise
                except Exception as x:
                    return ("exc", x)

            def client_body():
                proxy = client.Proxy(uri)
                proxy._pyroTimeout = 5.0
                proxy._pyroMaxRetries = retries
                proxy._pyroSeq = cfg["seq0"]       # (not connected yet: the first call connects, and that handshake can be hit as well)
                for i, kind in enumerate(history):
                    token = "t%d" % i
                    sock_before = proxy._pyroConnection.sock if proxy._pyroConnection else None
                    inb = sock_before.bytes_read if sock_before is not None else None
                    r = one_call(proxy, kind, token)
                    same_sock = proxy._pyroConnection is not None and proxy._pyroConnection.sock is sock_before
                    # (a retried call reconnects: the handshake answer read on the new connection is not a reply to the oneway call)
                    read_after = proxy._pyroConnection.sock.bytes_read if same_sock else None
                    results.append((kind, token, r, inb, read_after))
                state["active"] = False
                finals = []
                for j in range(2):
                    r = one_call(proxy, "normal", "final%d" % j)
                    finals.append(r)
                    if r[0] == "ok":
                        break
                results.append(("finals", finals))
                proxy._pyroRelease()
            w.client(client_body, "client")
            outcome = w.run()

            def V(fp, what):
                violations.append({"fingerprint": "C03|" + fp, "what": "%s [cfg=%s faults=%s]" % (what, cfg, state["faults"]), "replay": {"cfg": cfg}})
            if outcome == "deadlock":
                V("call-hangs|%s" % "+".join(sorted(set(state["faults"]) - {"deliver"})), "the client never finished: %r" % w.sch.threads)
            elif outcome != "quiescent":
                raise HarnessError("C03 execution ended with %s" % outcome)
            if w.loop_errors:
                V("daemon-loop-died|%s" % type(w.loop_errors[0][1]).__name__, "%r" % w.loop_errors)
            for name, x in w.sch.errors:
                V("uncaught-in-thread|%s|%s" % (name.split("-")[0], type(x).__name__), "%r" % x)
            nfaults = sum(1 for f in state["faults"] if f != "deliver")
            calls = [rec for rec in results if rec[0] != "finals"]
            last_failed_comm = bool(calls) and calls[-1][2][0] == "exc" and isinstance(calls[-1][2][1], errors.CommunicationError)
            for rec in results:
                if rec[0] == "finals":
                    finals = rec[1]
                    last = finals[-1]
                    if last[0] != "ok" or not str(last[1]).startswith("final"):
                        V("proxy-does-not-recover", "after the faults stopped the final calls gave %s" % show(finals, 300))
                    elif len(finals) == 2 and not isinstance(finals[0][1], errors.CommunicationError):
                        V("final-call-wrong-failure|%s" % type(finals[0][1]).__name__, "%s" % show(finals, 300))
                    elif len(finals) == 2 and last_failed_comm:
                        # the proxy had just reported a communication error: it knows the connection is gone, so the very next call over
                        # the healthy transport must be served (a failure is only excusable when the proxy could not know, e.g. a reset
                        # after a oneway call that returned normally)
                        V("proxy-does-not-recover|second-failure-after-reported-communication-error", "the last call of the history failed with a communication error, then %s" % show(finals, 300))
                    elif last[1] != "final%d" % (len(finals) - 1):
                        V("foreign-reply-returned|final", "final call returned %r" % (last[1],))
                    continue
                kind, token, r, inb, read_after = rec
                execd = tgt.executed.get(token, 0) if kind not in ("batch", "attr", "rebatch") else None
                own_values = {"normal": token, "blob": token, "oneway": None, "oneway-blob": None, "batch": [token + "a", token + "b"], "rebatch": [None, token + "b"], "attr": "attr-value", "stream": token + "-0"}
                if r[0] == "ok":
                    if kind == "raiser":
                        V("foreign-reply-returned|raiser-returned", "raiser(%s) returned %r" % (token, r[1]))
                    elif r[1] != own_values[kind]:
                        V("foreign-reply-returned|%s" % kind, "%s(%s) returned %s, its own answer is %s" % (kind, token, show(r[1]), show(own_values[kind])))
                    if kind in ("normal", "stream", "blob") and not (1 <= execd <= 1 + retries):
                        V("returned-call-executed-%d-times|retries=%d" % (execd, retries), "%s(%s)" % (kind, token))
                    if kind in ("oneway", "oneway-blob"):
                        if execd > 1:
                            V("oneway-executed-%d-times" % execd, token)
                        if inb is not None and read_after is not None and read_after != inb:
                            V("oneway-consumed-reply-bytes", "%d bytes read from the connection during a oneway call" % (read_after - inb))
                else:
                    x = r[1]
                    if isinstance(x, ValueError) and kind == "raiser":
                        if x.args != (token,):
                            V("foreign-exception-raised|raiser", "raiser(%s) raised %r" % (token, x))
                        if not (1 <= execd <= 1 + retries):
                            V("raising-call-executed-%d-times|retries=%d" % (execd, retries), token)
                    elif isinstance(x, errors.CommunicationError):
                        if execd is not None and execd > 1 + retries:
                            V("failed-call-executed-%d-times|retries=%d" % (execd, retries), "%s(%s)" % (kind, token))
                    else:
                        V("foreign-exception-raised|%s|%s" % (kind, type(x).__name__), "%s(%s) raised %r" % (kind, token, x))
            for t, n in tgt.executed.items():
                if t.startswith("t") and t[-1] in "ab" and n > 1 + retries:
                    V("batch-member-executed-%d-times" % n, t)
            obs = (outcome, tuple(state["faults"]), tuple((rec[0], rec[2][0] if rec[0] != "finals" else len(rec[1]), type(rec[2][1]).__name__ if rec[0] != "finals" and rec[2][0] == "exc" else "") for rec in results),
                   tuple(sorted(tgt.executed.items())))
            return {"outcome": repr(obs), "violations": violations, "sample": {"cfg": cfg, "faults": state["faults"], "results": show(results, 300)}}
        finally:
            w.close()
    return run_fn


def task(unit):
    return run_unit(make_run, unit)


def configs(quick):
    out = []
    h1 = [[c] for c in CALLS]
    h2 = [list(p) for p in itertools.product(CALLS, repeat=2)]
    sel3 = [["normal", "oneway", "normal"], ["raiser", "normal", "stream"], ["oneway", "oneway", "normal"], ["stream", "normal", "raiser"]]
    if quick:
        h3 = sel3
    else:
        h3 = [list(p) for p in itertools.product(["normal", "raiser", "oneway", "stream"], repeat=3)]
    hb = [["rebatch"], ["oneway-blob"], ["blob"], ["oneway-blob", "normal"], ["blob", "oneway-blob"], ["rebatch", "normal"], ["oneway", "rebatch"]] + ([] if quick else [["rebatch", "rebatch"], ["normal", "rebatch"], ["batch", "rebatch"], ["rebatch", "stream"]])
    for h in h1 + hb[:3] + h2 + hb[3:] + h3:
        for retries in (0, 1, 2):
            for seq0 in (0, 0xFFFE):
                if quick:
                    if retries == 2 and len(h) > 1:
                        continue
                    if seq0 and (retries or len(h) != 2):
                        continue
                    if len(h) == 2 and retries == 1 and (h[0] in ("batch", "attr") or "rebatch" in h):
                        continue
                else:
                    if len(h) == 3 and (seq0 or retries == 2):
                        continue
                p = 2 if len(h) <= 2 else (2 if (not quick and h in sel3 and retries == 0) else 1)
                if quick and len(h) == 2 and (retries or any(k in ("batch", "attr", "rebatch") for k in h)):
                    p = 1
                out.append({"history": h, "retries": retries, "seq0": seq0, "server": "multiplex", "p": p, "r": 3 if quick or len(h) < 3 else 2, "all_cuts": not quick, "horizon": 4000})
    # the thread-pool server: more threads, smaller budgets
    for h in h1 + hb[:3] + ([] if quick else [x for x in h2 if not any(k in ("batch", "attr") for k in x)]):
        for retries in ((0, 1) if quick else (0, 1, 2)):
            if not quick and len(h) == 2 and retries == 2:
                continue
            out.append({"history": h, "retries": retries, "seq0": 0, "server": "thread", "p": 1 if (quick or len(h) == 2) else 2, "r": 2, "all_cuts": False, "horizon": 4000})
    return out


def run(ctx):
    cfgs = configs(ctx.quick)
    stats = explore_parallel(ctx, task, cfgs, lambda c: c["p"], lambda c: c["r"])
    cov = coverage_from_stats(
        stats,
        rule="call histories (all of length 1-2 over {normal, raising, oneway, batch of two, attribute read, stream fetch}, plus histories with a oneway batch followed by re-use of the same BatchProxy, selected/all of length 3) on one proxy x MAX_RETRIES "
             "{0,1,2} x initial sequence number {0, 0xFFFE} x server type; for every request the wire adversary's decision {deliver, reply lost (timeout), reset before / "
             "after processing, reply cut at header/payload offsets + reset, stale reply replayed, sequence number rewritten, reply duplicated} and for every handshake answer {deliver, lost, reset, cut+reset} is a choice; all fault "
             "scripts with at most p faults (p per config, 1-2) are enumerated together with the message-level interleavings they induce; oracle: token ownership, per-token "
             "execution counters, oneway reads nothing, recovery of the proxy once the transport is healthy; distinct = distinct (fault script, outcomes, counters)",
        extra={"configs": len(cfgs), "budgets_p_r": sorted({(c["p"], c["r"]) for c in cfgs}), "bound_completed": "every execution within each configuration's (preemption, reordering) budget was run to completion"})
    return {"violations": stats.violations, "coverage": cov,
            "assumptions": ["faults act on whole protocol messages (fragmentation is C06/C17's subject)", "the client's CONNECT request is delivered faithfully; the daemon's handshake answer can be lost, cut or reset like any reply",
                            "a lost reply surfaces through the proxy's own timeout (virtual: fires when nothing else can run)"]}


def replay(ctx, payload):
    run_fn = make_run(payload["replay"]["cfg"])
    res = run_fn(Chooser([tuple(c) for c in payload["choices"]]))
    res2 = run_fn(Chooser([tuple(c) for c in payload["choices"]]))
    if res["outcome"] != res2["outcome"]:
        raise HarnessError("replay is not deterministic")
    return {"outcome": res["outcome"], "violations": res["violations"]}
