"""
C13 - every connection is cleaned up exactly once, however it ends.
Engine N+T whole system, both server types: connection A tracks/untracks resources, owns a session instance and ends in one of many
ways (release, abrupt close or reset at byte offsets of a request, malformed request, server-side timeout, SecurityError) while a
second connection B with its own resources stays open; all interleavings within the budget.
"""
import gc

from vf.explore import Stats, HarnessError, Chooser
from vf.common import coverage_from_stats, explore_parallel, run_unit
from vf.values import show

PID = "C13"
OFFSETS = [6, 39, 40, 41, -1]


def endings(quick):
    out = ["release", "security", "malformed", "never-handshaken-close", "handshake-then-close"]
    for k in (OFFSETS if quick else list(range(1, 96)) + [-1]):      # thorough: every byte offset of the request
        out.append("abrupt@%d" % k)
        out.append("reset@%d" % k)
    out.append("timeout-partial")
    out.append("timeout-idle")
    return out


def make_run(cfg):
    from vf import sched as S
    from vf.schedworld import SchedWorld
    from vf import targets
    from Pyro5 import client, errors, protocol, server, serializers, socketutil

    class ConnStandIn(object):
        def __init__(self, conn):
            self.key = id(conn)

    def key_of(c):
        return c.key if isinstance(c, ConnStandIn) else id(c)

    class HookDaemon(server.Daemon):
        def __init__(self, *a, **k):
            self.hooks = {}
            self.handshaken = []
            super().__init__(*a, **k)

        def validateHandshake(self, conn, data):
            # (the harness keeps the connection object, so that ids stay unique; the connection object's own finalisation is run
            #  explicitly at the end of the judgment, see "finalised" below)
            self.handshaken.append((data, conn))
            return "ok"

        def clientDisconnect(self, conn):
            self.hooks[id(conn)] = self.hooks.get(id(conn), 0) + 1
            if cfg.get("hook_raises"):
                raise RuntimeError("user hook fails")

    def run_fn(chooser):
        timeout = 2.0 if cfg["ending"].startswith("timeout") else 0.0
        watch = None
        if cfg.get("watch") == "pool":
            from Pyro5 import svr_threads
            watch = S.watch_functions(svr_threads.Worker.run, svr_threads.Worker.process, svr_threads.Pool.process, svr_threads.Pool.notify_done)
        w = SchedWorld(chooser, servertype=cfg["server"], allow_ticks=False, max_idle_wakes=30, watch=watch, COMMTIMEOUT=timeout, THREADPOOL_SIZE=4, THREADPOOL_SIZE_MIN=1,
                       ITER_STREAM_LINGER=float(cfg.get("linger", 30)))
        violations = []
        reg = {"instances": [], "resources": []}
        targets.ResTarget.registry = reg
        try:
            watch = None
            if cfg.get("instance_hook"):
                # the hook is installed on the daemon object (daemon.clientDisconnect = func), not by subclassing
                class PlainDaemon(server.Daemon):
                    def __init__(self, *a, **k):
                        self.hooks = {}
                        self.handshaken = []
                        super().__init__(*a, **k)

                    def validateHandshake(self, conn, data):
                        self.handshaken.append((data, conn))
                        return "ok"
                d = w.daemon(PlainDaemon)

                def hook(conn):
                    d.hooks[id(conn)] = d.hooks.get(id(conn), 0) + 1
                d.clientDisconnect = hook
            else:
                d = w.daemon(HookDaemon)
            d.register(targets.ResTargetInit if cfg.get("init_tracks") else targets.ResTarget, "res")
            w.serve(d)
            ser = serializers.serializers["serpent"]
            a_done = S.CoopEvent()
            b_ready = S.CoopEvent()
            got = {"a": [], "b": []}
            iters = []

            def client_a():
                try:
                    if cfg["other"] and cfg.get("order") != "a-first":
                        b_ready.wait()
                    reg["current_label"] = "A"
                    ending = cfg["ending"]
                    if ending == "never-handshaken-close":
                        sock = w.net.create_socket(connect=("h", 1))
                        sock.close()
                        return
                    p = client.Proxy("PYRO:res@h:1")
                    p._pyroHandshake = "A"
                    if timeout:
                        p._pyroTimeout = None
                    p._pyroBind()
                    if ending == "handshake-then-close":
                        p._pyroRelease()
                        return
                    if cfg.get("first_call_oneway"):
                        # the first use of the session class on this connection is a oneway call, directly followed by a normal one
                        p.ow_touch("A")
                        got["a"].append(("after-oneway", p.ping("a2")))
                    if cfg.get("init_tracks"):
                        reg["current_label"] = "A"
                        got["a"].append(("first-call", p.ping("a-first-call")))
                    if cfg["tracked"]:
                        got["a"].append(p.track("A", cfg["tracked"]))
                    for _ in range(cfg["untracked"]):
                        got["a"].append(p.untrack_last("A"))
                    if cfg.get("raising_resource"):
                        got["a"].append(p.track_raising("A"))
                        got["a"].append(("after-raising", p.ping("a3")))
                    if cfg.get("churn"):
                        got["a"].append(("addresses-reused", p.churn("A")))
                    for si in range(cfg.get("streams", 0)):
                        it = p.gen(3)          # an item stream that this connection leaves unfinished
                        iters.append(it)
                        got["a"].append(("stream-item", next(it)))
                    sock = p._pyroConnection.sock
                    if ending == "release":
                        p._pyroRelease()
                    elif ending == "security":
                        try:
                            p.sec()
                        except errors.SecurityError:
                            got["a"].append("security-error")
                        except errors.CommunicationError as x:
                            got["a"].append("comm:" + type(x).__name__)
                        p._pyroRelease()
                    elif ending == "method-exits":
                        try:
                            p.quit()
                            got["a"].append("quit-returned")
                        except errors.CommunicationError as x:
                            got["a"].append("comm:" + type(x).__name__)
                        p._pyroRelease()
                    elif ending == "malformed":
                        sock.sendall(b"PYRO" + b"\xff" * 60)
                        try:
                            sock.settimeout(None)
                            while sock.recv(100):
                                pass
                        except OSError:
                            pass
                        p._pyroConnection = None
                        sock.close()
                    elif ending.startswith(("abrupt@", "reset@")):
                        k = int(ending.split("@")[1])
                        req = bytes(protocol.SendingMessage(protocol.MSG_INVOKE, 0, 77, ser.serializer_id, ser.dumpsCall("res", "ping", ("x",), {})).data)
                        part = req[:k] if k >= 0 else req[:-1]
                        sock.sendall(part)
                        p._pyroConnection = None
                        if ending.startswith("reset@"):
                            sock.do_reset()
                        else:
                            sock.close()
                    elif ending == "timeout-partial":
                        req = bytes(protocol.SendingMessage(protocol.MSG_INVOKE, 0, 77, ser.serializer_id, ser.dumpsCall("res", "ping", ("x",), {})).data)
                        sock.sendall(req[:20])
                        try:
                            sock.settimeout(None)
                            while sock.recv(100):
                                pass
                        except OSError:
                            pass
                        p._pyroConnection = None
                        sock.close()
                    elif ending == "timeout-idle":
                        # stays silent until the server gives up on it (thread server: the worker's read times out)
                        try:
                            sock.settimeout(None)
                            while sock.recv(100):
                                pass
                        except OSError:
                            pass
                        p._pyroConnection = None
                        sock.close()
                except S.AbortExecution:
                    raise
                except Exception as x:
                    got["a"].append(("error", repr(x)))
                finally:
                    a_done.flag = True

            def client_b():
                try:
                    if cfg.get("order") == "a-first":
                        a_done.wait()      # B arrives just as A's connection is being cleaned up
                    p = client.Proxy("PYRO:res@h:1")
                    p._pyroHandshake = "B"
                    if timeout:
                        p._pyroTimeout = None
                    p._pyroBind()
                    reg["current_label"] = "B"
                    got["b"].append(p.track("B", 1))
                    b_ready.flag = True
                    a_done.wait()
                    got["b"].append(p.ping("b-after"))
                    if not timeout and cfg["ending"] != "never-handshaken-close":
                        # once the daemon has run A's disconnect handling, everything tracked on A must be closed - while B is still open
                        a_conns = lambda: [c for dta, c in d.handshaken if dta == "A"]
                        w.sch.block(lambda: a_conns() and all(d.hooks.get(key_of(c), 0) >= 1 for c in a_conns()), what="A cleaned up")
                        got["b"].append(("a-resources-after-a-ended", [(r.name, r.closed) for lab, r, st in reg["resources"] if lab == "A" and st == "tracked"]))
                    # B's resources must still be open while B is connected
                    got["b"].append(("b-resources-closed-while-open", [r.closed for lab, r, st in reg["resources"] if lab == "B"]))
                    p._pyroRelease()
                except S.AbortExecution:
                    raise
                except Exception as x:
                    got["b"].append(("error", repr(x)))
            w.client(client_a, "client-a")
            if cfg["other"]:
                w.client(client_b, "client-b")
            w.sch.hang_timeout = 20.0
            w.sch.max_steps = 20000
            outcome = w.run()

            def V(fp, what):
                violations.append({"fingerprint": "C13|" + fp, "what": "%s [cfg=%s]" % (what, cfg), "replay": {"cfg": cfg}})
            ecls = cfg["ending"].split("@")[0]
            if w.loop_errors:
                V("request-loop-stopped|%s" % type(w.loop_errors[0][1]).__name__, "%r" % (w.loop_errors,))
            fatal = False
            if outcome in ("horizon", "hang"):
                fatal = True
                V("cleanup-never-finishes|%s|%s" % (cfg["server"], "raising-hook" if cfg.get("hook_raises") else ecls),
                  "the execution did not come to rest within %d scheduling steps (outcome %s): disconnect handling keeps running; hook calls so far %r" % (w.sch.n_points, outcome, sorted(d.hooks.values())))
            elif outcome == "deadlock":
                if cfg["ending"] == "timeout-idle" and cfg["server"] == "multiplex":
                    # a multiplex server only notices an idle peer when it tries to read: nothing is owed here
                    return {"outcome": "idle-peer-on-multiplex-server", "violations": [], "sample": None}
                V("connection-never-cleaned-up|%s|%s" % (cfg["server"], ecls), "threads %r" % w.sch.threads)
            elif outcome not in ("quiescent", "horizon", "hang"):
                raise HarnessError("C13 ended with %s" % outcome)
            for name, x in w.sch.errors:
                if ecls == "method-exits" and isinstance(x, SystemExit):
                    x.__traceback__ = None     # (the harness keeps the exception; a thread that really died would have dropped its frames)
                    continue       # the worker thread ends with the method's SystemExit (not judged: the statement's list of endings does not name it)
                V("uncaught-in-thread|%s|%s" % ("worker" if name.startswith("Pyro-Worker") else name.split("-")[0], type(x).__name__), "%r" % x)
            for it in iters:
                it.proxy = None      # no close_stream traffic from the harness' own garbage collection
            if outcome == "quiescent":
                if cfg.get("streams") and cfg.get("linger", 30) == 0 and d.streaming_responses:
                    V("stream-of-ended-connection-kept|%s|%s" % (cfg["server"], ecls), "linger is 0 and the connection is gone, but the stream table still holds %d stream(s)" % len(d.streaming_responses))
                gc.collect()
                by_label = {}
                for data, conn in d.handshaken:
                    by_label.setdefault(data, []).append(conn)
                for data, conns in by_label.items():
                    for conn in conns:
                        n = d.hooks.get(key_of(conn), 0)
                        if n != 1:
                            V("disconnect-hook-called-%d-times|%s|%s" % (n, cfg["server"], ecls if data == "A" else "other-connection"), "connection %s: clientDisconnect ran %d times" % (data, n))
                for lab, r, st in reg["resources"]:
                    if st == "tracked" and r.closed != 1:
                        V("tracked-resource-closed-%d-times|%s|%s" % (r.closed, cfg["server"], ecls if lab == "A" else "other-connection"), "%s closed %d times" % (r.name, r.closed))
                    if st == "untracked" and r.closed != 0:
                        V("untracked-resource-closed|%s" % ecls, "%s closed %d times" % (r.name, r.closed))
                if cfg.get("first_call_oneway"):
                    want = 1 + (1 if cfg["other"] else 0)
                    if len(reg["instances"]) != want:
                        V("session-instances-per-connection|%s|%d-instead-of-%d" % (cfg["server"], len(reg["instances"]), want), "%d session instances were constructed for %d connections" % (len(reg["instances"]), want))
                alive = [i for i, r in enumerate(reg["instances"]) if r() is not None]
                if alive and not cfg.get("first_call_oneway"):     # (the harness keeps the finished oneway thread object, and with it the method's instance)
                    V("session-instance-survives|%s|%s" % (cfg["server"], ecls), "%d of %d session instances still alive" % (len(alive), len(reg["instances"])))
                open_srv = [s for c, s in w.net.sockets if not s.closed]
                if open_srv:
                    V("server-side-socket-not-closed|%s|%s" % (cfg["server"], ecls), "%r" % open_srv)
                ts = d.transportServer
                if cfg["server"] == "thread":
                    if ts.pool.busy:
                        V("worker-slot-not-released|%s" % ecls, "busy=%r" % ts.pool.busy)
                else:
                    m = ts.selector.get_map()
                    if m is None or len(m) != 1:
                        V("selector-slot-not-released|%s" % ecls, "%r" % (list(m.values()) if m else m,))
                if cfg["other"] and not timeout:      # with COMMTIMEOUT the idle connection B may legitimately be timed out as well
                    b = got["b"]
                    early = [x for x in b if isinstance(x, tuple) and x[0] == "b-resources-closed-while-open"]
                    aft = [x for x in b if isinstance(x, tuple) and x[0] == "a-resources-after-a-ended"]
                    if len(b) < 3 or b[1] != "b-after" or any(isinstance(x, tuple) and x[0] == "error" for x in b):
                        V("other-connection-disturbed|%s|%s" % (cfg["server"], ecls), "B observed %s" % show(b, 300))
                    elif early and any(n != 0 for n in early[0][1]):
                        V("other-connections-resource-closed-early|%s" % ecls, "%r" % (early[0],))
                    if aft and any(n != 1 for name, n in aft[0][1]):
                        V("resource-not-closed-when-its-connection-ended|%s|%s" % (cfg["server"], ecls), "after A's disconnect handling its tracked resources are %r" % (aft[0][1],))
                if any(isinstance(x, tuple) and x[0] == "error" for x in got["a"]):
                    V("well-formed-call-on-connection-failed|%s|%s" % (cfg["server"], ecls), "A observed %s" % show(got["a"], 300))
                # the ended connection object is finalised (the interpreter runs its __del__ when the last reference goes; the harness
                # holds one in d.handshaken, so the finaliser is run here, deterministically, after everything else was judged):
                # "exactly once" means that this closes no tracked resource a second time
                before = [(r, r.closed) for lab, r, st in reg["resources"] if lab == "A" and st == "tracked"]
                for conn in by_label.get("A", ()):
                    if d.hooks.get(key_of(conn), 0) >= 1:
                        fin = getattr(type(conn), "__del__", None)
                        if fin is not None:
                            try:
                                fin(conn)
                            except Exception as x:
                                V("connection-finaliser-raises|%s|%s" % (cfg["server"], type(x).__name__), "%r" % x)
                again = [(r.name, r.closed - n) for r, n in before if r.closed != n]
                if again:
                    V("tracked-resource-closed-again-at-finalisation|%s|%s" % (cfg["server"], ecls), "finalising the cleaned-up connection object closed %r once more" % (again,))
            obs = (ecls, cfg["server"], outcome, len(d.handshaken), tuple(sorted(d.hooks.values())), tuple((st, r.closed) for lab, r, st in reg["resources"]))
            return {"outcome": repr(obs), "violations": violations, "fatal": fatal, "sample": {"cfg": cfg, "a": show(got["a"], 120), "hooks": sorted(d.hooks.values())}}
        finally:
            targets.ResTarget.registry = None
            w.close()
    return run_fn


def task(unit):
    return run_unit(make_run, unit)


def configs(quick):
    out = []
    for server in ("multiplex", "thread"):
        for ending in endings(quick):
            for tracked, untracked in ((0, 0), (1, 0), (2, 1), (2, 2)):
                if ending in ("never-handshaken-close", "handshake-then-close") and tracked:
                    continue
                for other in (True, False):
                    if quick and not other and (tracked, untracked) != (2, 1):
                        continue
                    if not quick and "@" in ending and ending.split("@")[1] not in ("6", "39", "40", "41", "-1") and ((tracked, untracked) != (2, 1) or not other):
                        continue      # the extra byte offsets of the thorough tier: one resource shape, with the second connection
                    if quick and (tracked, untracked) == (2, 2) and not ending.startswith(("release", "reset@40")):
                        continue
                    p = 1 if (other and (tracked, untracked) in ((2, 1), (1, 0)) and (not quick or server == "multiplex" or ending in ("release", "reset@40", "security"))) else 0
                    if not quick and "@" in ending and ending.split("@")[1] not in ("6", "39", "40", "41", "-1"):
                        p = 0
                    out.append({"server": server, "ending": ending, "tracked": tracked, "untracked": untracked, "other": other, "p": p, "r": 1 if quick else 2, "horizon": 4000})
        out.append({"server": server, "ending": "release", "tracked": 1, "untracked": 0, "other": True, "hook_raises": True, "p": 1, "r": 1, "horizon": 4000})
        for ending in ("release", "reset@40", "security"):
            out.append({"server": server, "ending": ending, "tracked": 1, "untracked": 0, "other": True, "init_tracks": True, "p": 1, "r": 1, "horizon": 4000})
    # connections that own unfinished item streams when they end, with and without lingering
    for server in ("multiplex", "thread"):
        for ending in (("release", "reset@40") if quick else ("release", "reset@40", "abrupt@41", "security", "malformed")):
            for streams in (1, 2):
                for linger in (0, 30):
                    out.append({"server": server, "ending": ending, "tracked": 1, "untracked": 0, "other": True, "streams": streams, "linger": linger, "p": 1 if (streams == 1 or not quick) else 0,
                                "r": 1, "horizon": 4000})
    # the first call on a connection is a oneway call (its own thread), directly followed by a normal call
    for server in ("multiplex", "thread"):
        for ending in ("release", "reset@40"):
            out.append({"server": server, "ending": ending, "tracked": 1, "untracked": 0, "other": True, "first_call_oneway": True, "p": 1, "r": 1 if quick else 2, "horizon": 4000})
    # a tracked resource whose close() raises (closed once all the same, the other resources too)
    for server in ("multiplex", "thread"):
        for ending in (("release", "reset@40") if quick else ("release", "reset@40", "abrupt@40", "malformed", "security", "timeout-partial")):
            out.append({"server": server, "ending": ending, "tracked": 2, "untracked": 0, "other": True, "raising_resource": True, "p": 0 if quick else 1, "r": 0, "horizon": 4000})
    # the disconnect hook installed on the daemon instance
    for server in ("multiplex", "thread"):
        for ending in ("release", "reset@40"):
            out.append({"server": server, "ending": ending, "tracked": 1, "untracked": 0, "other": True, "instance_hook": True, "p": 0, "r": 0, "horizon": 4000})
    # a tracked resource that is dropped and collected, and a new one tracked right after it (at the same address, as CPython does)
    for server in ("multiplex", "thread"):
        for ending in ("release", "reset@40"):
            out.append({"server": server, "ending": ending, "tracked": 1, "untracked": 0, "other": True, "churn": True, "p": 1 if quick else 1, "r": 1, "horizon": 4000})
    # a remote method that ends with a BaseException which is no Exception (SystemExit): the thread server's connection ends there; the
    # hook, the tracked resources, the session instance and the socket are judged (the multiplex server's loop itself ends with it, so
    # there is no running daemon left to judge)
    for tracked, untracked in ((0, 0), (2, 1)):
        out.append({"server": "thread", "ending": "method-exits", "tracked": tracked, "untracked": untracked, "other": True, "p": 1, "r": 1 if quick else 2, "horizon": 4000})
    for ending in (("handshake-then-close", "reset@40") if quick else ("handshake-then-close", "reset@40", "release", "malformed")):
        out.append({"server": "thread", "ending": ending, "tracked": 0, "untracked": 0, "other": True, "order": "a-first", "watch": "pool", "p": 1, "r": 1 if quick else 2, "horizon": 6000})
    return out


def run(ctx):
    cfgs = configs(ctx.quick)
    stats = explore_parallel(ctx, task, cfgs, lambda c: c["p"], lambda c: c["r"])
    cov = coverage_from_stats(
        stats,
        rule="connection A (session-mode class, 0-2 resources tracked, 0-2 untracked again) ends by %d ways: orderly release, SecurityError, malformed request, close before / right "
             "after the handshake, abrupt close and reset at byte offsets {6,39,40,41,len-1} of a request, server-side timeout on a partial message and on an idle peer; "
             "with and without a second connection B holding its own resource throughout; also with 1-2 unfinished item streams owned by A, ITER_STREAM_LINGER {0, 30}; both server types; all interleavings within the per-config budget (one preemption, "
             "1-2 reorderings for the representative configurations); oracle at quiescence: disconnect hook count per handshaken connection = 1, every tracked resource closed "
             "exactly once and untracked ones never, session instances dead, server-side sockets closed, worker / selector slots released, B undisturbed and its resource "
             "still open while it is connected; distinct = observation vectors" % len(endings(ctx.quick)),
        extra={"configs": len(cfgs), "budgets_p_r": sorted({(c["p"], c["r"]) for c in cfgs}), "bound_completed": "every execution within each configuration's (preemption, reordering) budget was run to completion"})
    return {"violations": stats.violations, "coverage": cov,
            "assumptions": ["quick tier: byte offsets at field boundaries; thorough tier: every byte offset of the request under the default schedule",
                            "an idle peer on a multiplex server is not timed out by design (nothing is read)"]}


def replay(ctx, payload):
    run_fn = make_run(payload["replay"]["cfg"])
    res = run_fn(Chooser([tuple(c) for c in payload["choices"]]))
    return {"outcome": res["outcome"], "violations": res["violations"]}
