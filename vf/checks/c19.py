"""
C19 - URIs have one canonical text form that parses back to the same URI.
Engine S (inputs): every string of a URI grammar with near-misses + every single-character edit of seed URIs.
"""
import itertools
import json
import os
import subprocess
import sys
import tempfile

from vf.explore import Stats
from vf.common import coverage_from_stats

PID = "C19"

PROTOCOLS = ["PYRO", "pyro", "PyRo", "PYRONAME", "pyroname", "PYROMETA", "PyroMeta", "PYROX", "PYR", "PYRONAMES"]
OBJECTS = ["obj", "o@b", "o.b-c_d", "a,b", "b,a,b", " a", "", "\u00e9", "obj#1", "Pyro.NameServer", "x:y", "a,,b", "@", "o@@", "1,@a", "@a,1", "b,@a", "@a", "a, b ,a", "a@", "b,a@", "z,a@,b", "b,a@x"]
LOCATIONS = [None, "", "h:0", "h:000", "h:+0", "[FE80::1C2D:3E4F]:5", "[2001:db8::ABCD]", "h:1", "HOST:1", "Host.Example.com:80", "h", "h:", ":1", ":", "1.2.3.4:5", "[::1]:5", "[::1]", "[[::1]]:5", "[abc]:5", "[ABC::1]:5",
             "[fe80::1%eth0]:5", "[fe80::1%1]:5", "[::1]x:5", "[::1]:5x", "[1:2]:7", "[::1]:", "./u:s", "./u:", "./u:a:b", "./u:/tmp/a b", "./u:/tmp/s ", "./U:s",
             "h:+7", "h: 7", "h:7 ", "h:7_0", "h:\u0667", "h:-1", "h:0x7", "h:65536", "h:1:2", "h:99999999999999999999", "h :1", " h:1", "h:1 ", "h@i:1",
             "::1:5", "h:007", "h:0", "./u", ".:1", "[]:5", "[:]:5", "[::1]:+5"]
SEEDS = ["PYRO:obj@host:9090", "PYRONAME:some.name@ns.host:9090", "PYROMETA:t1,t2@h:1", "PYRO:obj@[::1]:55", "PYRO:obj@./u:/tmp/sock", "PYRONAME:n"]
EDIT_CHARS = list("@:.,[]/_%+- \t#0a9AZ\u00e9u") + ["\u0667", "\n"]


def grammar_strings():
    out = []
    for p, o, l in itertools.product(PROTOCOLS, OBJECTS, LOCATIONS):
        out.append("%s:%s" % (p, o) if l is None else "%s:%s@%s" % (p, o, l))
    return out


def edit_strings():
    out = set()
    for s in SEEDS:
        for i in range(len(s) + 1):
            for c in EDIT_CHARS:
                out.add(s[:i] + c + s[i:])
                if i < len(s):
                    out.add(s[:i] + c + s[i + 1:])
            if i < len(s):
                out.add(s[:i] + s[i + 1:])
                if i + 1 < len(s):
                    out.add(s[:i] + s[i + 1] + s[i] + s[i + 2:])
    return sorted(out)


def state_of(u):
    obj = u.object
    if isinstance(obj, (set, frozenset, list, tuple)) and not isinstance(obj, str):
        obj = ("<tags>",) + tuple(sorted(obj))
    return (u.protocol, obj, u.sockname, u.host, u.port)


def check_string(s, core, errors, V, st, sers, nss, client):
    try:
        u = core.URI(s)
    except errors.PyroError:
        st.outcomes["rejected"] = st.outcomes.get("rejected", 0) + 1
        return None
    except Exception as x:
        V("parser-internal-error|%s" % type(x).__name__, "URI(%r) raised %r instead of a PyroError" % (s, x), s)
        return None
    kind = u.protocol + ("|sock" if u.sockname else ("|noloc" if u.host is None else ("|ipv6" if ":" in u.host else ("|emptyhost" if u.host == "" else "|host"))))
    st.outcomes["accepted:" + kind] = st.outcomes.get("accepted:" + kind, 0) + 1
    try:
        t = str(u)
        repr(u)
    except Exception as x:
        V("text-form-raises|%s|%s" % (kind, type(x).__name__), "URI(%r) is accepted but has no text form: %r" % (s, x), s)
        return None
    try:
        u2 = core.URI(t)
    except Exception as x:
        V("text-form-rejected|%s" % kind, "URI(%r) is accepted, its text form %r is not (%s)" % (s, t, x), s)
        u2 = None
    if u2 is not None:
        if state_of(u2) != state_of(u) or not (u2 == u) or (u2 != u):
            V("reparse-unequal|%s" % kind, "URI(%r)=%r but URI(str)=URI(%r)=%r" % (s, state_of(u), t, state_of(u2)), s)
        t2 = str(u2)
        if t2 != t:
            V("text-not-fixed-point|%s" % kind, "str(URI(%r))=%r, parsed again prints %r" % (s, t, t2), s)
        try:
            if hash(u) != hash(u2) and u == u2:
                V("equal-but-different-hash|%s" % kind, "%r" % s, s)
        except TypeError as x:
            V("unhashable|%s" % u.protocol, "hash(URI(%r)) raised %s" % (s, x), s)
    # copy constructor
    try:
        c = core.URI(u)
        if state_of(c) != state_of(u) or c != u:
            V("copy-unequal|%s" % kind, "URI(URI(%r)) differs" % s, s)
    except Exception as x:
        V("copy-raises|%s" % kind, "URI(URI(%r)) raised %r" % (s, x), s)
    # serializers and the proxy state path
    for name, ser in sers:
        try:
            r = ser.loads(ser.dumps(u))
        except Exception as x:
            V("serializer-raises|%s|%s|%s" % (name, u.protocol, type(x).__name__), "%s round trip of URI(%r) raised %r" % (name, s, x), s)
            continue
        if not isinstance(r, core.URI) or state_of(r) != state_of(u) or str(r) != t or not (r == u):
            V("serializer-changes-uri|%s|%s" % (name, kind), "%s: URI(%r) -> %r (%r)" % (name, s, getattr(r, "__dict__", r), type(r)), s)
        try:
            p = client.Proxy(u)
            p2 = ser.loads(ser.dumps(p))
            if not isinstance(p2, client.Proxy) or state_of(p2._pyroUri) != state_of(u) or p2 != p:
                V("proxy-state-changes-uri|%s|%s" % (name, kind), "%s: Proxy(URI(%r)) arrives with %r" % (name, s, getattr(p2, "_pyroUri", p2)), s)
            p._pyroConnection = None
        except Exception as x:
            V("proxy-state-raises|%s|%s|%s" % (name, kind, type(x).__name__), "%s round trip of Proxy(URI(%r)) raised %r" % (name, s, x), s)
    # name server: stored as text, re-parsed on lookup
    for bname, ns in nss:
        for as_text in (False, True):
            try:
                ns.register("n", str(u) if as_text else u)
                back = ns.lookup("n")
                lst = ns.list()["n"]
            except Exception as x:
                V("nameserver-raises|%s|%s|%s" % (bname, kind, type(x).__name__), "register/lookup of URI(%r) raised %r" % (s, x), s)
                continue
            if state_of(back) != state_of(u) or back != u or lst != t:
                V("nameserver-changes-uri|%s|%s" % (bname, kind), "registered URI(%r)=%r, lookup gives %r, list gives %r" % (s, state_of(u), state_of(back), lst), s)
    st.points += 1
    return u


def task(unit):
    from Pyro5 import core, errors, serializers, client, nameserver, config
    strings, do_pairs = unit
    config.reset(False)
    st = Stats()
    seen = set()

    def V(fp, what, s):
        fp = "C19|" + fp
        if fp not in seen:
            seen.add(fp)
            st.violations.append({"fingerprint": fp, "what": what, "replay": {"string": s}})
    sers = sorted(serializers.serializers.items())
    dbfile = os.path.join("/dev/shm" if os.path.isdir("/dev/shm") else tempfile.gettempdir(), "vf_c19_%d.sqlite" % os.getpid())
    if os.path.exists(dbfile):
        os.remove(dbfile)
    nss = [("memory", nameserver.NameServer()), ("sql", nameserver.NameServer(nameserver.SqlStorage(dbfile)))]
    accepted = []
    for s in strings:
        st.executions += 1
        u = check_string(s, core, errors, V, st, sers, nss if len(s) < 40 else nss[:1], client)
        if u is not None:
            accepted.append((s, u))
            st.states.add(repr(state_of(u)))
            if len(st.samples) < 3:
                st.samples.append({"input": s, "text_form": str(u), "state": repr(state_of(u))})
    if do_pairs:
        for (s1, u1), (s2, u2) in itertools.combinations(accepted, 2):
            loc1 = (u1.host, u1.port, u1.sockname)
            loc2 = (u2.host, u2.port, u2.sockname)
            try:
                eq = (u1 == u2)
                ne = (u1 != u2)
            except Exception as x:
                V("eq-raises|%s" % type(x).__name__, "%r == %r raised %r" % (s1, s2, x), s1)
                continue
            if eq == ne:
                V("eq-ne-inconsistent", "%r vs %r: == is %s and != is %s" % (s1, s2, eq, ne), s1)
            if loc1 != loc2 and eq:
                V("different-locations-compare-equal", "URI(%r) == URI(%r) although locations %r and %r differ" % (s1, s2, loc1, loc2), s1)
            if state_of(u1) == state_of(u2) and not eq:
                V("same-state-compare-unequal", "URI(%r) != URI(%r) although all components are equal" % (s1, s2), s1)
            if eq:
                try:
                    if hash(u1) != hash(u2):
                        V("equal-but-different-hash|pair", "%r / %r" % (s1, s2), s1)
                except TypeError:
                    pass   # reported as 'unhashable' above
            st.points += 1
    if os.path.exists(dbfile):
        os.remove(dbfile)
    return st


def hashseed_probe(strings):
    """run in a sub-process with another PYTHONHASHSEED: text forms of tag-list URIs must not depend on set order"""
    sys.path.insert(0, os.environ.get("PYRO5_VERIF_REPO", "/repo"))
    from Pyro5 import core
    out = {}
    for s in strings:
        try:
            u = core.URI(s)
            t = str(u)
            out[s] = [t, str(core.URI(t)), core.URI(t) == u]
        except Exception as x:
            out[s] = ["EXC", type(x).__name__, False]
    print(json.dumps(out))


def chunks(lst, n):
    for i in range(0, len(lst), n):
        yield lst[i:i + n]


def run_rebinding(unit):
    """a proxy for a PYRONAME / PYROMETA uri travels, is then bound through the name server (the library replaces its uri by the resolved
    one) and travels again: every time the receiver must get the uri the proxy holds at that moment"""
    import copy
    import gc
    from vf.syncworld import SyncWorld
    from vf import targets
    from Pyro5 import client, core, nameserver, serializers
    st = Stats()
    gc.disable()
    w = SyncWorld(SERIALIZER="serpent")
    saved = core.locate_ns
    try:
        nsd = w.daemon()
        ns = nameserver.NameServer()
        nsuri = nsd.register(ns, core.NAMESERVER_NAME)
        ns.register(core.NAMESERVER_NAME, nsuri)
        d = w.daemon()
        target = d.register(targets.Echo(), "echo")
        ns.register("svc", target, metadata={"tag1"})
        core.locate_ns = lambda *a, **k: client.Proxy(nsuri)
        for text in ("PYRONAME:svc", "PYROMETA:tag1", str(target)):
            for sname in sorted(serializers.serializers) + ["copy"]:
                st.executions += 1
                ser = serializers.serializers.get(sname)
                send = (lambda p: ser.loads(ser.dumps(p))) if ser else copy.copy
                p = client.Proxy(text)
                stages = []
                try:
                    stages.append(("fresh", send(p)._pyroUri, p._pyroUri))
                    p._pyroBind()
                    stages.append(("bound", send(p)._pyroUri, p._pyroUri))
                    p._pyroRelease()
                    stages.append(("released", send(p)._pyroUri, p._pyroUri))
                except Exception as x:
                    st.violations.append({"fingerprint": "C19|proxy-state-raises|rebinding|%s" % type(x).__name__, "what": "%s / %s: %r" % (text, sname, x), "replay": {"rebinding": True}})
                    continue
                finally:
                    p._pyroRelease()
                st.points += 3
                for stage, got, held in stages:
                    if state_of(got) != state_of(held):
                        fp = "C19|proxy-state-changes-uri|after-%s|%s" % (stage, text.split(":")[0])
                        if fp not in [v["fingerprint"] for v in st.violations]:
                            st.violations.append({"fingerprint": fp, "what": "a %s proxy for %s holds %s but arrives (%s) holding %s" % (stage, text, held, sname, got), "replay": {"rebinding": True}})
                st.outcomes["rebinding:%s" % text.split(":")[0]] = 1
        st.states.add("rebinding")
    finally:
        core.locate_ns = saved
        w.close()
        gc.enable()
    return st


def run(ctx):
    total = Stats()
    for st in ctx.pmap(run_rebinding, [0]):
        total.merge(st)
    g = grammar_strings()
    e = edit_strings()
    units = [(c, True) for c in chunks(g, 450)] + [(c, True) for c in chunks(e, 450)]
    for st in ctx.pmap(task, units):
        total.merge(st)
    # set-iteration order as an explicit environment dimension (DESIGN.md 2.5)
    meta = [s for s in g + e if s.upper().startswith("PYROMETA")][:400]
    seeds = sorted({0, 1, 2, 3, ctx.seed % 1000} if ctx.quick else set(range(8)) | {ctx.seed % 1000})
    results = {}
    for hs in seeds:
        env = dict(os.environ, PYTHONHASHSEED=str(hs), PYTHONPATH=os.path.dirname(os.path.dirname(os.path.dirname(os.path.abspath(__file__)))))
        p = subprocess.run([sys.executable, "-c", "import sys,json; from vf.checks.c19 import hashseed_probe; hashseed_probe(json.load(sys.stdin))"],
                           input=json.dumps(meta), capture_output=True, text=True, env=env)
        if p.returncode != 0:
            raise RuntimeError("hash seed probe failed: " + p.stderr[-500:])
        results[hs] = json.loads(p.stdout)
        total.executions += len(meta)
    seen = set()
    for s in meta:
        forms = {hs: results[hs][s] for hs in seeds}
        for hs, (t, t2, eq) in forms.items():
            if t == "EXC":
                continue
            if t2 != t and "C19|text-not-fixed-point|PYROMETA" not in seen:
                seen.add("C19|text-not-fixed-point|PYROMETA")
                total.violations.append({"fingerprint": "C19|text-not-fixed-point|PYROMETA", "what": "hash seed %d: str(URI(%r))=%r re-parses and prints %r" % (hs, s, t, t2), "replay": {"string": s, "hashseed": hs}})
            if not eq and "C19|reparse-unequal|PYROMETA" not in seen:
                seen.add("C19|reparse-unequal|PYROMETA")
                total.violations.append({"fingerprint": "C19|reparse-unequal|PYROMETA", "what": "hash seed %d: %r" % (hs, s), "replay": {"string": s, "hashseed": hs}})
        texts = {f[0] for f in forms.values()}
        if len(texts) > 1 and "C19|text-form-depends-on-hash-seed|PYROMETA" not in seen:
            seen.add("C19|text-form-depends-on-hash-seed|PYROMETA")
            total.violations.append({"fingerprint": "C19|text-form-depends-on-hash-seed|PYROMETA",
                                     "what": "URI(%r) has no single canonical text form: %r under hash seeds %r" % (s, sorted(texts), seeds), "replay": {"string": s}})
    cov = coverage_from_stats(
        total,
        rule="every string protocol x object x location from a grammar with near-misses (%d strings) and every single-character insertion / substitution / deletion / "
             "transposition from a %d-character set at every position of %d seed URIs (%d strings); per accepted string: text form re-parses to an equal URI, is a fixed "
             "point, hash defined and equal, 4 serializers, Proxy state path, both name-server back-ends; all pairs of accepted URIs per work unit for the equality/"
             "location/hash clauses; tag-list URIs additionally under %d hash seeds in sub-processes; distinct = distinct accepted URI states"
             % (len(g), len(EDIT_CHARS), len(SEEDS), len(e), len(seeds)),
        nontrivial=len(total.states),
        extra={"grammar_strings": len(g), "edit_strings": len(e), "hash_seeds": seeds})
    return {"violations": total.violations, "coverage": cov, "assumptions": ["strings come from the stated grammar/edit alphabet; other unicode is not explored"]}


def replay(ctx, payload):
    if payload.get("replay", {}).get("rebinding"):
        st = run_rebinding(0)
        return {"violations": [v for v in st.violations if v["fingerprint"] == payload["fingerprint"]]}
    st = task(([payload["replay"]["string"]], False))
    return {"violations": st.violations}
