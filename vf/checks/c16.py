"""
C16 - daemon registry: an id reaches exactly its object, for as long as registered.
Engine S over the synchronous transport: breadth-first search over histories of register / unregister / gc steps on a
pool of objects and a class; every history is replayed on a fresh daemon; all observations compared with a dict model.
"""
import gc
import weakref

from vf.explore import Stats, digest
from vf.common import coverage_from_stats
from vf.values import show

PID = "C16"
DAEMON = "Pyro.Daemon"
LABELS = ["o1", "o2", "K"]
IDS = ["a", "b", None, DAEMON]


def alphabet(quick):
    ops = []
    for lab in LABELS:
        for oid in IDS:
            for force in (False, True):
                for weak in (False, True):
                    if lab == "K" and weak and (quick and oid != "a"):
                        continue
                    if quick and oid == DAEMON and (weak or lab == "o2"):
                        continue
                    ops.append(("register", lab, oid, force, weak))
        ops.append(("unregister_obj", lab))
    # an object that cannot carry the registration attributes: the registration fails and must leave no trace
    for oid in (("a", None) if quick else ("a", "b", None)):
        for weak in (False, True):
            ops.append(("register", "S", oid, False, weak))
    ops.append(("unregister_obj", "D"))       # the daemon's own object, handed to unregister as an object
    for oid in ("a", "b", "gen1", DAEMON, "zz"):
        ops.append(("unregister_id", oid))
    for lab in ("o1", "o2"):
        ops.append(("drop", lab))         # the application drops its last reference, then a collection runs
    return ops


class Model:
    """reference: dict id -> label, plus which labels are weakly held and whether the application still holds them"""
    def __init__(self):
        self.reg = {}          # id -> (label, weak)
        self.held = {"o1": True, "o2": True, "K": True}
        self.gen = 0
        self.unjudged = False  # forced replacement of the daemon's own id: explored, not judged
        self.current = {}      # label -> the id it was registered under last (what the object itself remembers)
        self.double = set()    # labels that were forced under a second id while still holding another one: only their *current* id is judged
        self.double_age = 0    # operations applied since the first such forcing (those states are explored two operations deep)
        self.nops = 0
        self.double_until = 2  # an object may be forced under a second id by one of the first N operations of a history; later ones are not followed

    def ids_of(self, lab):
        return [i for i, (l, w) in self.reg.items() if l == lab]

    def apply(self, op):
        if self.double:
            self.double_age += 1
        self.nops += 1
        return self._apply(op)

    def _apply(self, op):
        k = op[0]
        if k == "register":
            _, lab, oid, force, weak = op
            if lab == "S":
                return ("exc-any", None)      # refused one way or another (which exception is not the point), nothing changes
            if not self.held[lab]:
                return ("skip", None)
            if lab == "K" and weak:
                return ("exc", "TypeError")
            if not force:
                if self.ids_of(lab) and lab in self.double:
                    return ("lenient-register", (lab, oid, weak))     # whether the object still 'has a Pyro id' is not defined for it
                if self.ids_of(lab):
                    return ("exc", "DaemonError")
                if oid is not None and (oid in self.reg or oid == DAEMON):
                    return ("exc", "DaemonError")
            if oid is None:
                self.gen += 1
                oid = "gen%d" % self.gen
            if oid == DAEMON:
                self.unjudged = True
            if force and any(i != oid for i in self.ids_of(lab)):
                # one object forced under a second id: the statement does not say what unregister(obj) means afterwards;
                # from here on only its current id is judged (it must stay usable as long as it is registered to the object)
                if self.nops > self.double_until:
                    self.unjudged = True     # deeper in a history this corner is not followed (bounded; see evidence)
                self.double.add(lab)
            self.reg[oid] = (lab, weak)
            self.current[lab] = oid
            return ("ok", oid)
        if k == "unregister_obj":
            lab = op[1]
            if lab == "D":
                return ("ok", None)       # the daemon's own object cannot be unregistered: silently ignored
            if not self.held[lab]:
                return ("skip", None)
            if lab in self.double:
                # only the id the object remembers is given up
                cur = self.current.get(lab)
                if cur is not None and self.reg.get(cur, (None,))[0] == lab and cur != DAEMON:
                    del self.reg[cur]
                self.current[lab] = None
                return ("lenient", None)
            ids = self.ids_of(lab)
            if not ids:
                return ("exc", "DaemonError")
            for i in ids:
                if i != DAEMON:
                    del self.reg[i]
            self.current[lab] = None
            return ("ok", None)
        if k == "unregister_id":
            oid = op[1]
            if oid != DAEMON:
                self.reg.pop(oid, None)
            return ("ok", None)
        if k == "drop":
            lab = op[1]
            if not self.held[lab]:
                return ("skip", None)
            self.held[lab] = False
            # strongly registered objects are kept alive by the daemon; weak registrations disappear with the object
            if not any(not w for (l, w) in self.reg.values() if l == lab):
                for i in self.ids_of(lab):
                    del self.reg[i]
            return ("ok", None)
        raise AssertionError(op)


OTHER_SERIALIZER = {"serpent": "json", "json": "msgpack", "msgpack": "serpent"}     # (marshal has no per-type hooks: no auto-proxying by design)


class World:
    def __init__(self, serializer="serpent", variant="id"):
        from vf.syncworld import SyncWorld
        from vf import targets
        from Pyro5 import client
        self.w = SyncWorld(SERIALIZER=serializer)
        self.serializer = serializer
        self.targets = targets
        self.client = client
        self.d = self.w.daemon()
        # classes are made per world: the serializers' type hooks are process-global, and a class seen by an earlier world would
        # hide what registration does (or fails to do) for a class the process meets for the first time.
        # variant "eq": all pool objects compare equal to anything (value equality must never stand in for identity) and are falsy
        # (an empty container-like object is as registered as any other)
        ns = {"__eq__": (lambda a, b: True), "__ne__": (lambda a, b: False), "__hash__": (lambda a: 7), "__len__": (lambda a: 0)} if variant == "eq" else {}
        self.T = type("RegT", (targets.RegT,), ns)
        self.K = type("RegK", (targets.RegK,), {})
        self.pool = {"o1": self.T("o1"), "o2": self.T("o2"), "K": self.K, "S": targets.RegSlots("S")}
        self.refs = {l: weakref.ref(o) for l, o in self.pool.items() if l not in ("K", "S")}
        self.host = targets.RegHost()
        targets.RegHost.pool = self.pool
        self.d.register(self.host, "host")
        self.gen = 0
        self.genmap = {}
        self.persist = {}

    def close(self):
        for p in self.persist.values():
            try:
                p._pyroRelease()
            except Exception:
                pass
        self.targets.RegHost.pool = {}
        for lab in ("o1", "o2"):
            o = self.pool.get(lab)
            if o is not None:
                for a in ("_pyroId", "_pyroDaemon"):
                    if hasattr(o, a):
                        try:
                            delattr(o, a)
                        except Exception:
                            pass
        for a in ("_pyroId", "_pyroDaemon"):
            if a in vars(self.K):
                delattr(self.K, a)
        # best effort: forget the per-world classes in the process-global hook tables (otherwise they merely stay allocated)
        try:
            import serpent
            from Pyro5 import serializers
            for cls in (self.T, self.K):
                for ser in serializers.serializers.values():
                    for attr in dir(type(ser)):
                        if attr.endswith("__type_replacements"):
                            getattr(type(ser), attr).pop(cls, None)
                try:
                    serpent.unregister_class(cls)
                except Exception:
                    pass
        except Exception:
            pass
        self.w.close()

    def apply(self, op, errors):
        k = op[0]
        try:
            if k == "register":
                _, lab, oid, force, weak = op
                if self.pool.get(lab) is None:
                    return ("skip", None)
                uri = self.d.register(self.pool[lab], oid, force=force, weak=weak)
                got = uri.object
                if oid is None:
                    self.gen += 1
                    self.genmap[got] = "gen%d" % self.gen
                    got = "gen%d" % self.gen
                return ("ok", got)
            if k == "unregister_obj":
                if op[1] == "D":
                    self.d.unregister(self.d.objectsById[DAEMON])
                    return ("ok", None)
                if self.pool.get(op[1]) is None:
                    return ("skip", None)
                self.d.unregister(self.pool[op[1]])
                return ("ok", None)
            if k == "unregister_id":
                oid = op[1]
                real = [r for r, g in self.genmap.items() if g == oid]
                self.d.unregister(real[0] if real else oid)
                return ("ok", None)
            if k == "drop":
                lab = op[1]
                if self.pool.get(lab) is None:
                    return ("skip", None)
                self.pool[lab] = None
                gc.collect()
                return ("ok", None)
        except errors.DaemonError:
            return ("exc", "DaemonError")
        except Exception as x:
            return ("exc", type(x).__name__)

    def norm_id(self, i):
        return self.genmap.get(i, i)

    def touch(self):
        """the 'return-object / uriFor / proxyFor' steps of a history: every pool object is returned from a remote method once and asked for
        its uri and proxy; the answers are not judged here (they are in the state that is observed), but whatever the daemon remembers
        from doing so is now part of the history"""
        # long-lived client connections, one per id, that call again after every step (whatever the daemon remembers per connection
        # must follow the registry)
        for oid in ("a", "b"):
            p = self.persist.get(oid)
            if p is None:
                p = self.persist[oid] = self.client.Proxy("PYRO:%s@h:1" % oid)
            try:
                p._pyroInvoke("who", (), {})
            except Exception:
                pass
        hostp = self.client.Proxy("PYRO:host@h:1")
        try:
            for lab in ("o1", "o2"):
                obj = self.pool.get(lab)
                if obj is None:
                    continue
                try:
                    r = hostp._pyroInvoke("give", (lab,), {})
                    if isinstance(r, self.client.Proxy):
                        r._pyroRelease()
                except Exception:
                    pass
                for f in (self.d.uriFor, self.d.proxyFor):
                    try:
                        f(obj)
                    except Exception:
                        pass
        finally:
            hostp._pyroRelease()

    def key(self):
        objs = []
        for i, o in sorted(self.d.objectsById.items()):
            if i in (DAEMON, "host"):
                if i == DAEMON and not isinstance(o, __import__("Pyro5").server.DaemonObject):
                    objs.append((i, "REPLACED"))
                continue
            weak = isinstance(o, weakref.ref)
            t = o() if weak else o
            lab = "K" if t is self.K else getattr(t, "label", "dead" if t is None else "?")
            objs.append((self.norm_id(i), lab, weak))
        attrs = []
        for lab in LABELS:
            o = self.pool[lab] if lab == "K" else (self.refs[lab]() if lab in self.refs else None)
            if o is None:
                attrs.append((lab, "gone"))
            else:
                d = vars(o)
                attrs.append((lab, self.norm_id(d.get("_pyroId", "-")) if "_pyroId" in d else "-", "_pyroDaemon" in d, self.pool[lab] is not None))
        # hidden state that decides futures: the finalizers still attached to the pool objects (weak registrations)
        fins = []
        for f, info in list(weakref.finalize._registry.items()):
            o = info.weakref()
            for lab in ("o1", "o2"):
                if o is not None and lab in self.refs and o is self.refs[lab]():
                    fins.append((lab, self.norm_id(info.args[0]) if info.args else "?"))
        return (tuple(objs), tuple(attrs), tuple(sorted(fins)))


def observe(world, model, errors, V, hist, st):
    """compare every observation in this state with the model"""
    d = world.d
    client = world.client
    if DAEMON not in d.objectsById or getattr(d.objectsById[DAEMON], "_pyroId", None) != DAEMON:
        V("daemon-object-unregistered-or-damaged", "objectsById has no intact %s entry any more: %r" % (DAEMON, sorted(d.objectsById)), hist)
        return
    if model.double:
        # ids of objects registered several times: the registry itself is taken as given for them (only their current id is judged)
        for i, o in list(d.objectsById.items()):
            t = o() if isinstance(o, weakref.ref) else o
            lab = getattr(t, "label", None)
            ni = world.norm_id(i)
            if lab in model.double and ni not in model.reg:
                model.reg[ni] = (lab, isinstance(o, weakref.ref))
        for ni, (lab, wk) in list(model.reg.items()):
            if lab in model.double and ni not in {world.norm_id(i) for i in d.objectsById}:
                del model.reg[ni]
    want_ids = set(model.reg) | {DAEMON, "host"}
    got_ids = {world.norm_id(i) for i in d.objectsById[DAEMON].registered()} if not model.unjudged else None
    if got_ids is not None and got_ids != want_ids:
        V("registered-ids-differ|%s" % ("extra" if got_ids - want_ids else "missing"), "daemon reports %s, model %s" % (sorted(got_ids), sorted(want_ids)), hist)
    inv = {g: r for r, g in world.genmap.items()}
    for oid in ["a", "b", "gen1", "gen2", "zz"]:
        real = inv.get(oid, oid)
        p = client.Proxy("PYRO:%s@h:1" % real)
        st.points += 1
        try:
            p._pyroBind()
            r = ("ok", p._pyroInvoke("who", (), {}))
        except errors.CommunicationError as x:
            r = ("unknown", str(x)[:80])
        except Exception as x:
            r = ("exc", type(x).__name__ + ":" + str(x)[:60])
        finally:
            p._pyroRelease()
        if oid in model.reg:
            lab = model.reg[oid][0]
            if r != ("ok", lab):
                V("call-reaches-wrong-target|%s" % ("other-object" if r[0] == "ok" else r[0]), "call to id %s should reach %s, got %r" % (oid, lab, r), hist)
        else:
            if r[0] == "ok":
                V("unregistered-id-still-served", "id %s is not registered in the model but a call was answered by %r" % (oid, r[1]), hist)
            elif r[0] == "exc":
                V("unregistered-id-wrong-error|%s" % r[1].split(":")[0], "id %s: %r" % (oid, r), hist)
    # the same through the long-lived connections of the 'touch' replays
    for oid, p in sorted(world.persist.items()):
        st.points += 1
        try:
            r = ("ok", p._pyroInvoke("who", (), {}))
        except errors.CommunicationError as x:
            r = ("unknown", str(x)[:80])
        except Exception as x:
            r = ("exc", type(x).__name__ + ":" + str(x)[:60])
        if oid in model.reg:
            if r != ("ok", model.reg[oid][0]):
                V("call-reaches-wrong-target|long-lived-connection|%s" % ("other-object" if r[0] == "ok" else r[0]), "call to id %s over a connection that has been open all along should reach %s, got %r" % (oid, model.reg[oid][0], r), hist)
        elif r[0] == "ok":
            V("unregistered-id-still-served|long-lived-connection", "id %s is not registered but a call over a long-lived connection was answered by %r" % (oid, r[1]), hist)
    # uriFor / return-object for every pool object
    hostp = client.Proxy("PYRO:host@h:1")
    try:
        for lab in ("o1", "o2"):
            obj = world.pool[lab]
            if obj is None:
                continue
            ids = model.ids_of(lab)
            if lab in model.double:
                cur = model.current.get(lab)
                if cur is None or model.reg.get(cur, (None,))[0] != lab:
                    continue      # nothing is claimed about an object under several ids beyond its current registration
                ids = [cur]
            st.points += 2
            try:
                u = ("ok", world.norm_id(d.uriFor(obj).object))
            except errors.DaemonError:
                u = ("exc", "DaemonError")
            except Exception as x:
                u = ("exc", type(x).__name__)
            if ids and (u[0] != "ok" or u[1] not in ids):
                V("uriFor-registered-object|%s" % u[1], "object %s registered as %r, uriFor gives %r" % (lab, ids, u), hist)
            if not ids and u[0] == "ok":
                V("uriFor-unregistered-object-succeeds", "object %s is not registered, uriFor gives %r" % (lab, u), hist)
            try:
                r = hostp._pyroInvoke("give", (lab,), {})
                res = ("ok", r)
            except Exception as x:
                res = ("exc", type(x).__name__ + ":" + str(x)[:80])
            if ids:
                if res[0] != "ok" or not isinstance(res[1], client.Proxy):
                    V("registered-object-not-returned-as-proxy|%s" % (res[0] if res[0] != "ok" else type(res[1]).__name__), "object %s (ids %r) arrives as %s" % (lab, ids, show(res)), hist)
                else:
                    px = res[1]
                    try:
                        w = px._pyroInvoke("who", (), {})
                        if w != lab:
                            V("returned-proxy-reaches-other-object", "proxy for %s answers %r" % (lab, w), hist)
                    except Exception as x:
                        V("returned-proxy-unusable|%s" % type(x).__name__, "%r" % x, hist)
                    finally:
                        px._pyroRelease()
            else:
                # differential: must travel exactly like a never-registered instance of the same class
                world.pool["fresh"] = world.T("fresh")
                try:
                    fr = ("ok", hostp._pyroInvoke("give", ("fresh",), {}))
                except Exception as x:
                    fr = ("exc", type(x).__name__ + ":" + str(x)[:80])
                del world.pool["fresh"]
                a = (res[0], type(res[1]).__name__ if res[0] == "ok" else res[1].split(":")[0])
                b = (fr[0], type(fr[1]).__name__ if fr[0] == "ok" else fr[1].split(":")[0])
                if a != b:
                    V("unregistered-object-does-not-travel-by-value|%s-vs-%s" % (a[1], b[1]), "object %s (unregistered) arrives as %s, a never-registered one as %s" % (lab, show(res), show(fr)), hist)
            # the same through a client that speaks another serializer than the daemon's configured one
            cs = OTHER_SERIALIZER[world.serializer]
            hp2 = client.Proxy("PYRO:host@h:1")
            hp2._pyroSerializer = cs
            st.points += 1
            try:
                try:
                    res2 = ("ok", hp2._pyroInvoke("give", (lab,), {}))
                except Exception as x:
                    res2 = ("exc", type(x).__name__ + ":" + str(x)[:80])
                if ids:
                    if res2[0] != "ok" or not isinstance(res2[1], client.Proxy):
                        V("registered-object-not-returned-as-proxy|other-serializer|%s" % (res2[0] if res2[0] != "ok" else type(res2[1]).__name__),
                          "object %s (ids %r) arrives as %s at a %s client of a %s daemon" % (lab, ids, show(res2), cs, world.serializer), hist)
                    else:
                        try:
                            if res2[1]._pyroInvoke("who", (), {}) != lab:
                                V("returned-proxy-reaches-other-object", "proxy for %s (client serializer %s)" % (lab, cs), hist)
                        except Exception as x:
                            V("returned-proxy-unusable|%s" % type(x).__name__, "%r (client serializer %s)" % (x, cs), hist)
                        finally:
                            res2[1]._pyroRelease()
                elif res2[0] == "ok" and isinstance(res2[1], client.Proxy):
                    V("unregistered-object-does-not-travel-by-value|Proxy-other-serializer", "object %s (unregistered) arrives as a proxy at a %s client" % (lab, cs), hist)
            finally:
                hp2._pyroRelease()
    finally:
        hostp._pyroRelease()


def expand_task(unit):
    """unit = (quick, serializer, history). replays the history, observes, and returns successor (key, history) pairs"""
    from Pyro5 import errors
    quick, sername, hist = unit[:3]
    variant = unit[3] if len(unit) > 3 else "id"
    st = Stats()
    seen = set()
    succ = []

    def V(fp, what, h):
        fp = "C16|" + fp
        if fp not in seen:
            seen.add(fp)
            st.violations.append({"fingerprint": fp, "what": "%s; history=%r serializer=%s objects=%s" % (what, h, sername, variant), "replay": {"history": [list(o) for o in h], "serializer": sername, "variant": variant}})

    def replay(h):
        world = World(sername, variant)
        model = Model()
        model.double_until = 2 if quick else 3
        ok = True
        for op in h:
            want = model.apply(op)
            got = world.apply(op, errors)
            if want[0] == "exc-any" and got[0] == "exc":
                want = got
            if variant == "touch":
                world.touch()
            if want[0] == "lenient-register":
                lab_, oid_, weak_ = want[1]
                if got[0] == "ok":
                    model.reg[got[1]] = (lab_, weak_)
                    model.current[lab_] = got[1]
                    if oid_ is None:
                        model.gen += 1
                want = got
            if want != got and want[0] != "lenient" and not (op[0] == "unregister_obj" and want == ("exc", "DaemonError")):
                ok = False
        return world, model, ok
    gc.disable()
    try:
        world, model, ok = replay(hist)
        try:
            if not model.unjudged:
                observe(world, model, errors, V, hist, st)
        finally:
            world.close()
        gc.collect()
        if variant == "touch":
            return st, succ      # (observation only: the successors are generated by the other variants)
        if model.double and model.double_age >= 1:
            # states of an object held under several ids are observed, not expanded further
            st.outcomes["double-id-state-observed-only"] = st.outcomes.get("double-id-state-observed-only", 0) + 1
            return st, succ
        for op in alphabet(quick):
            world, model, ok = replay(hist)
            try:
                want = model.apply(op)
                got = world.apply(op, errors)
                st.executions += 1
                st.points += 1
                h2 = hist + [op]
                if want[0] == "skip":
                    continue
                if op[0] == "unregister_obj" and want == ("exc", "DaemonError") and got == ("ok", None):
                    got = want     # unregistering something that is not registered may also be a silent no-op (as it is for unknown ids)
                if want[0] == "lenient":
                    want = got     # explored, outcome not judged
                if want[0] == "exc-any":
                    if got[0] != "exc":
                        V("operation-not-refused|register|unattributable-object", "an object that cannot carry the registration attributes was registered: %r" % (got,), h2)
                        continue
                    want = got
                if want[0] == "lenient-register":
                    lab_, oid_, weak_ = want[1]
                    if got[0] == "ok":
                        model.reg[got[1]] = (lab_, weak_)
                        model.current[lab_] = got[1]
                        if oid_ is None:
                            model.gen += 1
                    want = got
                if want != got and not model.unjudged:
                    if want[0] == "exc" and got[0] == "ok":
                        V("operation-not-refused|%s|%s" % (op[0], "weak" if (op[0] == "register" and op[4]) else "strong"), "model refuses with %s, daemon returned %r" % (want[1], got), h2)
                    elif want[0] == "ok" and got[0] == "exc":
                        V("operation-refused-or-failed|%s|%s" % (op[0], got[1]), "model accepts, daemon raised %s" % got[1], h2)
                    else:
                        V("operation-result-differs|%s" % op[0], "model %r, daemon %r" % (want, got), h2)
                    continue      # diverged: reported once, not explored further
                if model.unjudged:
                    st.outcomes["unjudged:forced-daemon-id"] = st.outcomes.get("unjudged:forced-daemon-id", 0) + 1
                    continue
                # the state right after the operation is checked when it is expanded; the dedup key must tell states apart
                if model.double and model.double_age >= 2:
                    st.outcomes["double-id-state-not-expanded-further"] = st.outcomes.get("double-id-state-not-expanded-further", 0) + 1
                    continue
                key = digest([repr(world.key()), sorted(model.reg.items()), sorted(model.held.items()), sorted(model.double), sorted((k, str(v)) for k, v in model.current.items())])
                succ.append((key, [list(o) for o in h2]))
                oc = "%s:%s" % (op[0], want[0] if want[0] == "exc" else "ok")
                st.outcomes[oc] = st.outcomes.get(oc, 0) + 1
            finally:
                world.close()
            gc.collect()
    finally:
        gc.enable()
    if len(st.samples) < 1:
        st.samples.append({"history": [list(o) for o in hist], "serializer": sername, "operations_tried": len(alphabet(quick))})
    return st, succ


def run(ctx):
    depth = 3 if ctx.quick else 4
    total = Stats()
    sers = ["serpent", "json", "msgpack"]
    seen = {}
    frontier = [[]]
    level = 0
    cap = 3000 if ctx.quick else 12000
    capped = False
    while frontier and level <= depth:
        units = []
        for i, h in enumerate(frontier):
            # serializer only matters for the auto-proxy leg: rotate deterministically, all three at the shallow levels
            # the 'eq' variant (pool objects that compare equal to everything) is the stronger adversary: both at the shallow levels, 'eq' below
            for s in (sers if level <= 1 else [sers[i % 3]]):
                for variant in (("id", "eq", "touch") if level <= 1 else ("eq", "touch")):
                    units.append((ctx.quick, s, [tuple(o) for o in h], variant))
        nxt = []
        level_succ = []
        for st, succ in ctx.pmap(expand_task, units):
            total.merge(st)
            level_succ.extend(succ)
        level_succ.sort(key=lambda t: (t[0], len(t[1]), repr(t[1])))      # deterministic representative per state
        for _one in [0]:
            for key, h in level_succ:
                if key not in seen:
                    seen[key] = h
                    if level < depth:
                        if len(seen) <= cap:
                            nxt.append(h)
                        else:
                            capped = True
        frontier = nxt
        level += 1
    total.states = set(seen)
    cov = coverage_from_stats(
        total,
        rule="breadth-first search over histories of %d operations (register object/class with explicit/colliding/generated/reserved ids, force and weak flags; unregister by "
             "object and by id; dropping the application's last reference + collection) to depth %d, each history replayed on a fresh real daemon; states deduplicated by "
             "(registry contents, per-object _pyroId/_pyroDaemon attributes, liveness); in every state: registered() vs model, a call to every id (whose log records it), "
             "uriFor, and returning each pool object from a remote method (proxy reaching that very object vs by-value like a never-registered instance) under serpent/"
             "json/msgpack, also through a client speaking another serializer than the daemon's; pool classes are created per replay (type hooks are process-global) and, below "
             "depth 2, their instances compare equal to everything (identity, not equality, must decide); every history is also replayed with each pool object "
             "returned from a remote method and asked for its uri/proxy after every step (return-object/uriFor/proxyFor as history steps); registrations of an object "
             "that cannot carry attributes must fail without trace; distinct = distinct states" % (len(alphabet(ctx.quick)), depth + 1),
        nontrivial=len(seen), extra={"state_cap_hit": capped})
    cov["exhaustive"] = not capped
    return {"violations": total.violations, "coverage": cov,
            "assumptions": ["forced replacement of the daemon's own id is explored but not judged ('silently' is read as 'without force')",
                            "after one object was forced under a second id only its current registration is judged (still usable through uriFor and as an auto-proxy while registered); what unregister(obj) then means is explored but not judged"]}


def replay(ctx, payload):
    r = payload["replay"]
    hist = [tuple(o) for o in r["history"]]
    out = []
    for h in (hist[:-1], hist):
        st, _ = expand_task((False, r["serializer"], list(h), r.get("variant", "id")))
        out.extend(v for v in st.violations if v["fingerprint"] == payload["fingerprint"])
    return {"violations": out}
