"""
C14 - the name server is a faithful map, identical on both storage back-ends, across reopen and statement failures.
Engine S: breadth-first search over operation histories with state deduplication; three systems in lock-step
(reference dict, NameServer(MemoryStorage), NameServer(SqlStorage)); every query compared in every state;
every sqlite statement of every mutating operation as a failure point.
"""
import os
import re
import sqlite3 as real_sqlite3
import tempfile
import types

from vf.explore import Stats, digest
from vf.common import coverage_from_stats

PID = "C14"
NSNAME = "Pyro.NameServer"
U = ["PYRO:o1@h:1", "PYRO:o2@h:2"]


def alphabet(tier):
    quick = tier == "quick"
    names = ["a", "A", "a_", "a%", "a?"] if quick else ["a", "A", "ab", "a_", "a%", "a?", "a*", "a[b]", "é", ""]
    metas = [None, ("t",), ("T", "t"), ("",), ("r|w", "t")] if quick else [None, ("t",), ("T", "t"), ("%",), ("",), ("", "t"), ("r|w", "t"), ("a,b",)]
    muts = []
    for n in names + [NSNAME]:
        for ui, u in enumerate(U):
            for safe in (False, True):
                for m in metas:
                    if n == NSNAME and (ui or m):
                        continue
                    if not quick or not (ui == 1 and m in (("T", "t"), ("",))):
                        muts.append(("register", n, u, safe, m))
        muts.append(("remove_name", n))
        if n != NSNAME:
            for m in metas:
                muts.append(("set_metadata", n, m))
    for p in (["a", "A", "a_", "a%", "a?", "a*", "Pyro"] if quick else ["a", "A", "a_", "a%", "a?", "a*", "a[", "a[b", "ab", "Pyro", "P", "é", "%", "_", "*", "?"]):
        muts.append(("remove_prefix", p))
    for r in (["a.*", ".*", "["] if quick else ["a.*", ".*", "[", "A|a", "a_", "a%", "^a$", "(?i)a"]):
        muts.append(("remove_regex", r))
    muts.append(("set_metadata", "zz", ("t",)))
    muts.append(("remove_name", ""))
    muts.append(("remove_prefix", ""))
    # queries
    qs = [("count",), ("list",), ("list_meta",)]
    for n in names + [NSNAME, "zz"]:
        qs.append(("lookup", n, False))
        qs.append(("lookup", n, True))
    for p in ["a", "A", "a_", "a%", "%", "_", "P", "", "ab", "é", "a?", "a*", "a[", "a[b]", "*", "?", "[a]"]:
        qs.append(("list_prefix", p, False))
        qs.append(("list_prefix", p, True))
    for r in ["a.*", "A", "a_", "a%", "[", ".*", "(?i)a$"]:
        qs.append(("list_regex", r))
    for tags in [("t",), ("T",), ("t", "T"), ("t", "t"), ("%",), ("",), ("zz",), ("t", "zz"), (), ("r|w",), ("a,b", "t")]:
        for rm in (True, False):
            qs.append(("yp_all", tags, rm, "list"))
            qs.append(("yp_any", tags, rm, "list"))
        qs.append(("yp_all", tags, True, "set"))
        qs.append(("yp_any", tags, True, "set"))
    qs.append(("list_both",))
    qs.append(("yp_both",))
    return muts, qs


# ---------------------------------------------------------------------------------------------- reference model
class Bad(Exception):
    pass


def model_apply(m, op):
    """m: dict name -> (uri, frozenset(tags)). returns ('ok', value) or ('exc', classname); mutates m"""
    k = op[0]
    if k == "register":
        _, n, u, safe, meta = op
        if safe and n in m:
            return ("exc", "NamingError")
        m[n] = (u, frozenset(meta or ()))
        return ("ok", None)
    if k == "remove_name":
        n = op[1]
        if n and n in m and n != NSNAME:
            del m[n]
            return ("ok", 1)
        return ("ok", 0)
    if k == "remove_prefix":
        p = op[1]
        if not p:
            return ("ok", 0)
        victims = [n for n in m if n.startswith(p) and n != NSNAME]
        for n in victims:
            del m[n]
        return ("ok", len(victims))
    if k == "remove_regex":
        try:
            rx = re.compile(op[1])
        except re.error:
            return ("exc", "NamingError")
        victims = [n for n in m if rx.match(n) and n != NSNAME]
        for n in victims:
            del m[n]
        return ("ok", len(victims))
    if k == "set_metadata":
        _, n, meta = op
        if n not in m:
            return ("exc", "NamingError")
        m[n] = (m[n][0], frozenset(meta or ()))
        return ("ok", None)
    raise AssertionError(op)


def model_query(m, q):
    k = q[0]
    full = lambda names: tuple(sorted((n, (m[n][0], tuple(sorted(m[n][1])))) for n in names))
    plain = lambda names: tuple(sorted((n, m[n][0]) for n in names))
    if k == "count":
        return ("ok", len(m))
    if k == "list":
        return ("ok", plain(m))
    if k == "list_meta":
        return ("ok", full(m))
    if k == "lookup":
        _, n, rm = q
        if n not in m:
            return ("exc", "NamingError")
        return ("ok", (m[n][0], tuple(sorted(m[n][1]))) if rm else m[n][0])
    if k == "list_prefix":
        _, p, rm = q
        names = [n for n in m if n.startswith(p)]
        return ("ok", full(names) if rm else plain(names))
    if k == "list_regex":
        try:
            rx = re.compile(q[1])
        except re.error:
            return ("exc", "NamingError")
        return ("ok", plain([n for n in m if rx.match(n)]))
    if k in ("yp_all", "yp_any"):
        _, tags, rm, _ = q
        if not tags:
            return ("ok", ())
        ts = frozenset(tags)
        names = [n for n in m if (ts <= m[n][1] if k == "yp_all" else ts & m[n][1])]
        return ("ok", full(names) if rm else plain(names))
    if k == "list_both":
        return ("exc", "ValueError")
    if k == "yp_both":
        return ("exc", "ValueError")
    raise AssertionError(q)


# ---------------------------------------------------------------------------------------------- real systems
def norm_map(d, with_meta):
    if with_meta:
        return tuple(sorted((n, (str(u), tuple(sorted(md or ())))) for n, (u, md) in d.items()))
    return tuple(sorted((n, str(u)) for n, u in d.items()))


def real_apply(ns, op, errors):
    k = op[0]
    try:
        if k == "register":
            _, n, u, safe, meta = op
            return ("ok", ns.register(n, u, safe=safe, metadata=list(meta) if meta else None))
        if k == "remove_name":
            return ("ok", ns.remove(name=op[1]))
        if k == "remove_prefix":
            return ("ok", ns.remove(prefix=op[1]))
        if k == "remove_regex":
            return ("ok", ns.remove(regex=op[1]))
        if k == "set_metadata":
            return ("ok", ns.set_metadata(op[1], list(op[2]) if op[2] else None))
    except errors.NamingError:
        return ("exc", "NamingError")
    except Exception as x:
        return ("exc", type(x).__name__)
    raise AssertionError(op)


def real_query(ns, q, errors):
    k = q[0]
    try:
        if k == "count":
            return ("ok", ns.count())
        if k == "list":
            return ("ok", norm_map(ns.list(), False))
        if k == "list_meta":
            return ("ok", norm_map(ns.list(return_metadata=True), True))
        if k == "lookup":
            _, n, rm = q
            r = ns.lookup(n, return_metadata=rm)
            return ("ok", (str(r[0]), tuple(sorted(r[1]))) if rm else str(r))
        if k == "list_prefix":
            _, p, rm = q
            return ("ok", norm_map(ns.list(prefix=p, return_metadata=rm), rm))
        if k == "list_regex":
            return ("ok", norm_map(ns.list(regex=q[1]), False))
        if k in ("yp_all", "yp_any"):
            _, tags, rm, shape = q
            arg = list(tags) if shape == "list" else set(tags)
            r = ns.yplookup(meta_all=arg, return_metadata=rm) if k == "yp_all" else ns.yplookup(meta_any=arg, return_metadata=rm)
            return ("ok", norm_map(r, rm))
        if k == "list_both":
            return ("ok", norm_map(ns.list(prefix="a", regex="a"), False))
        if k == "yp_both":
            return ("ok", norm_map(ns.yplookup(meta_all=["t"], meta_any=["t"]), True))
    except errors.NamingError:
        return ("exc", "NamingError")
    except Exception as x:
        return ("exc", type(x).__name__)
    raise AssertionError(q)


def raw_rows(dbfile):
    db = real_sqlite3.connect(dbfile)
    try:
        names = db.execute("SELECT id, name, uri FROM pyro_names").fetchall()
        metas = db.execute("SELECT object, metadata FROM pyro_metadata").fetchall()
    finally:
        db.close()
    byid = {i: n for i, n, u in names}
    rows = tuple(sorted((n, u) for i, n, u in names))
    mrows = tuple(sorted((byid.get(o, "<orphan>"), t) for o, t in metas))
    return rows, mrows


class Work:
    def __init__(self):
        d = "/dev/shm" if os.path.isdir("/dev/shm") else tempfile.gettempdir()
        self.dbfile = os.path.join(d, "vf_c14_%d.sqlite" % os.getpid())

    def load(self, snap, nameserver):
        """snap = (model dict, sqlite file bytes, memory dict)"""
        for ext in ("", "-journal", "-wal", "-shm"):
            if os.path.exists(self.dbfile + ext):
                os.remove(self.dbfile + ext)
        if snap[1] is not None:
            with open(self.dbfile, "wb") as f:
                f.write(snap[1])
        sql = nameserver.NameServer(nameserver.SqlStorage(self.dbfile))
        mem = nameserver.NameServer()
        for n, (u, md) in snap[2].items():
            dict.__setitem__(mem.storage, n, (u, md))
        return dict(snap[0]), mem, sql

    def snapshot(self, model, mem):
        with open(self.dbfile, "rb") as f:
            b = f.read()
        return (dict(model), b, dict(mem.storage))


def state_key(model, mem, dbfile):
    mk = tuple(sorted((n, (u, tuple(sorted(md)))) for n, (u, md) in model.items()))
    memk = tuple(sorted((n, (u, tuple(sorted(md or ())))) for n, (u, md) in mem.storage.items()))
    return digest([mk, memk, raw_rows(dbfile)])


class FaultySqlite(types.ModuleType):
    """stands in for nameserver.sqlite3: the k-th statement/commit after arming raises OperationalError"""
    def __init__(self):
        super().__init__("faulty_sqlite3")
        self.countdown = None
        self.statements = 0
        self.fired = False

    def tick(self, what):
        self.statements += 1
        if self.countdown is not None:
            self.countdown -= 1
            if self.countdown < 0:
                self.countdown = None
                self.fired = True
                raise real_sqlite3.OperationalError("injected failure at statement %d (%s)" % (self.statements, what))

    def connect(self, *a, **kw):
        return FaultyConn(real_sqlite3.connect(*a, **kw), self)

    def __getattr__(self, name):
        return getattr(real_sqlite3, name)


class FaultyConn:
    def __init__(self, db, mod):
        self._db = db
        self._mod = mod

    def execute(self, sql, *a):
        if not sql.startswith("PRAGMA"):
            self._mod.tick(sql[:30])
        return self._db.execute(sql, *a)

    def cursor(self):
        return FaultyCursor(self._db.cursor(), self._mod)

    def commit(self):
        self._mod.tick("commit")
        return self._db.commit()

    def __enter__(self):
        self._db.__enter__()
        return self

    def __exit__(self, *exc):
        return self._db.__exit__(*exc)

    def __getattr__(self, name):
        return getattr(self._db, name)


class FaultyCursor:
    def __init__(self, cur, mod):
        self._cur = cur
        self._mod = mod

    def execute(self, sql, *a):
        if not sql.startswith("PRAGMA"):
            self._mod.tick(sql[:30])
        self._cur.execute(sql, *a)
        return self

    def fetchone(self):
        return self._cur.fetchone()

    def fetchall(self):
        return self._cur.fetchall()

    @property
    def lastrowid(self):
        return self._cur.lastrowid

    def close(self):
        return self._cur.close()


def expand_task(unit):
    """unit = (tier, history, snapshot, do_faults). returns (stats, [(key, history, snapshot)])"""
    from Pyro5 import nameserver, errors, config
    tier, history, snap, do_faults, (slice_i, slice_n) = unit
    config.reset(False)
    muts, qs = alphabet(tier)
    w = Work()
    st = Stats()
    seen = set()
    succ = []

    def V(fp, what, op):
        fp = "C14|" + fp
        if fp not in seen:
            seen.add(fp)
            st.violations.append({"fingerprint": fp, "what": "%s; history=%r op=%r" % (what, history, op), "replay": {"history": history, "op": list(op) if op else None}})

    # ---- all queries in this state, three-way
    model, mem, sql = w.load(snap, nameserver)
    for q in (qs if slice_i == 0 else []):
        want = model_query(model, q)
        gm = real_query(mem, q, errors)
        gs = real_query(sql, q, errors)
        st.points += 1
        qk = q[0] + ("" if q[0] not in ("yp_all", "yp_any") else ("-dup" if len(set(q[1])) != len(q[1]) else "") + "-" + q[3])
        if gm != want:
            V("memory-differs-from-map|%s" % qk, "memory back-end answers %r, the map says %r for %r" % (gm, want, q), q)
        if gs != want:
            cls = ""
            if q[0] in ("list_prefix",) and gs[0] == "ok" and want[0] == "ok":
                cls = "|wildcard-or-case" if len(gs[1]) > len(want[1]) else "|missing"
            V("sqlite-differs-from-map|%s%s" % (qk, cls), "sqlite back-end answers %r, the map says %r for %r" % (gs, want, q), q)
    # reopen: a second storage object on the same file lists the same map
    re_ns = nameserver.NameServer(nameserver.SqlStorage(w.dbfile))
    if real_query(re_ns, ("list_meta",), errors) != model_query(model, ("list_meta",)):
        V("reopen-differs", "after reopening the database the listing is %r, map %r" % (real_query(re_ns, ("list_meta",), errors), model_query(model, ("list_meta",))), None)
    # state built directly must equal state reached by the history (differential, no expected values)
    direct_mem = nameserver.NameServer()
    for n in sorted(model):
        direct_mem.register(n, model[n][0], metadata=list(model[n][1]) or None)
    for q in (("list_meta",), ("count",)):
        if real_query(direct_mem, q, errors) != real_query(mem, q, errors):
            V("history-state-differs-from-direct-state|%s" % q[0], "memory: %r vs %r" % (real_query(mem, q, errors), real_query(direct_mem, q, errors)), q)
    # ---- every mutating operation
    for op in muts[slice_i::slice_n]:
        model, mem, sql = w.load(snap, nameserver)
        pre = dict(model)
        want = model_apply(model, op)
        gm = real_apply(mem, op, errors)
        gs = real_apply(sql, op, errors)
        st.executions += 1
        st.points += 1
        if gm != want:
            V("memory-op-differs|%s" % op[0], "memory back-end returned %r, the map %r" % (gm, want), op)
        if gs != want:
            V("sqlite-op-differs|%s" % op[0], "sqlite back-end returned %r, the map %r" % (gs, want), op)
        lm = real_query(mem, ("list_meta",), errors)
        ls = real_query(sql, ("list_meta",), errors)
        wl = model_query(model, ("list_meta",))
        if lm != wl:
            V("memory-state-differs-after|%s" % op[0], "memory listing %r, map %r" % (lm, wl), op)
        if ls != wl:
            V("sqlite-state-differs-after|%s" % op[0], "sqlite listing %r, map %r" % (ls, wl), op)
        if NSNAME in pre and NSNAME not in dict(ls[1] if ls[0] == "ok" else ()):
            V("own-entry-removed|%s" % op[0], "the name server's own entry disappeared", op)
        key = state_key(model, mem, w.dbfile)
        if gm == want and gs == want and lm == wl and ls == wl:
            # only states in which all three systems agree are explored further (a divergence is reported once, not cascaded)
            succ.append((key, history + [list(op)], w.snapshot(model, mem)))
        st.outcomes["%s:%s" % (op[0], want[0] if want[0] == "exc" else ("noop" if model == pre else "changed"))] = \
            st.outcomes.get("%s:%s" % (op[0], want[0] if want[0] == "exc" else ("noop" if model == pre else "changed")), 0) + 1
        # ---- failure points: every statement of this operation
        if do_faults == "all" or (do_faults == "bulk" and op[0] in ("remove_prefix", "remove_regex") and want[0] == "ok" and want[1] >= 1):
            faulty = FaultySqlite()
            saved = nameserver.sqlite3
            try:
                nameserver.sqlite3 = faulty
                k = 0
                while True:
                    model2, mem2, sql2 = w.load(snap, nameserver)
                    faulty.statements = 0
                    faulty.fired = False
                    faulty.countdown = k
                    res = real_apply(sql2, op, errors)
                    faulty.countdown = None
                    if not faulty.fired:
                        break
                    st.executions += 1
                    st.extra["fault_points"] = st.extra.get("fault_points", 0) + 1
                    nameserver.sqlite3 = saved
                    after = real_query(nameserver.NameServer(nameserver.SqlStorage(w.dbfile)), ("list_meta",), errors)
                    rows_after = raw_rows(w.dbfile)
                    nameserver.sqlite3 = faulty
                    before = model_query(pre, ("list_meta",))
                    if res[0] != "exc":
                        # a failing read-only probe may legitimately be absorbed only if the result is still right
                        V("statement-failure-swallowed|%s" % op[0], "statement %d failed but the operation returned %r" % (k, res), op)
                    if after != before:
                        V("partial-effect-after-statement-failure|%s" % op[0], "statement %d of the operation failed; reopened map is %r, before the operation it was %r" % (k, after, before), op)
                    elif any(n == "<orphan>" for n, t in rows_after[1]):
                        V("orphan-metadata-after-statement-failure|%s" % op[0], "statement %d failed, orphan metadata rows left: %r" % (k, rows_after[1]), op)
                    k += 1
                    if k > 60:
                        break
            finally:
                nameserver.sqlite3 = saved
    if len(st.samples) < 1:
        st.samples.append({"history": history, "model_state": sorted(snap[0]), "mutating_ops_applied": len(muts), "queries_compared": len(qs)})
    for ext in ("", "-journal"):
        if os.path.exists(w.dbfile + ext):
            os.remove(w.dbfile + ext)
    return st, succ


def initial_snapshots():
    from Pyro5 import nameserver
    w = Work()
    out = []
    for init in ({}, {NSNAME: ("PYRO:Pyro.NameServer@h:9090", frozenset(["class:Pyro5.nameserver.NameServer"]))}):
        model, mem, sql = w.load((init, None, {}), nameserver)
        for n, (u, md) in init.items():
            mem.register(n, u, metadata=list(md))
            sql.register(n, u, metadata=list(md))
        out.append((state_key(model, mem, w.dbfile), [], w.snapshot(model, mem)))
    if os.path.exists(w.dbfile):
        os.remove(w.dbfile)
    return out


def run(ctx):
    quick = ctx.quick
    depth = 2 if quick else 3
    fault_depth = 1      # (thorough with 2 and 6000 states did not finish within 50 minutes)
    total = Stats()
    seen = {}
    frontier = []
    for key, hist, snap in initial_snapshots():
        seen[key] = hist
        frontier.append((hist, snap))
    level = 0
    max_states = 400 if quick else 2500
    capped = False
    while frontier and level <= depth:
        nsl = 16 if (level <= fault_depth and len(frontier) < 64) else (4 if len(frontier) < 64 else 1)
        units = [(ctx.tier, h, s, "all" if level <= fault_depth else "bulk", (i, nsl)) for h, s in frontier for i in range(nsl)]
        nxt = []
        level_succ = []
        for st, succ in ctx.pmap(expand_task, units):
            total.merge(st)
            level_succ.extend(succ)
        level_succ.sort(key=lambda t: (t[0], len(t[1]), repr(t[1])))      # deterministic representative per state
        for _one in [0]:
            for key, hist, snap in level_succ:
                if key not in seen:
                    seen[key] = hist
                    if level < depth:
                        if len(seen) <= max_states:
                            nxt.append((hist, snap))
                        else:
                            capped = True
        frontier = nxt
        level += 1
    total.states = set(seen)
    muts, qs = alphabet(ctx.tier)
    cov = coverage_from_stats(
        total,
        rule="breadth-first search over histories of %d mutating operations (register safe/unsafe with tag sets, remove by name/prefix/regex, set_metadata over names "
             "with case pairs, SQL wildcards, regex metacharacters, unicode, the empty string and the server's own name) from 2 initial states to depth %d, states "
             "deduplicated by (map, memory storage, raw sqlite rows); in every state %d queries are compared three-way (dict model / memory / sqlite), the database is "
             "reopened, and every statement and commit of every mutating operation (all operations up to depth %d, bulk removals that remove something at every depth) is made to fail; distinct = distinct states"
             % (len(muts), depth + 1, len(qs), fault_depth),
        nontrivial=len(seen),
        extra={"depth": depth + 1, "state_cap_hit": capped, "mutating_alphabet": len(muts), "queries": len(qs)})
    cov["exhaustive"] = not capped
    return {"violations": total.violations, "coverage": cov,
            "assumptions": ["process crashes inside sqlite are sqlite's guarantee; failure points are statement/commit failures",
                            "falsy name/prefix/regex arguments mean 'not given', as in the API signature"]}


def replay(ctx, payload):
    from Pyro5 import nameserver
    hist = payload["replay"]["history"]
    # rebuild the state by replaying the history on fresh storages
    snaps = initial_snapshots()
    out = []
    for key, h0, snap in snaps:
        cur = snap
        ok = True
        for op in hist:
            st, succ = expand_task((ctx.tier, [], cur, "none", (0, 1)))
            nxt = [s for k, h, s in succ if h[-1] == list(op) or h[-1] == op]
            if not nxt:
                ok = False
                break
            cur = nxt[0]
        if ok:
            st, _ = expand_task((ctx.tier, hist, cur, "all", (0, 1)))
            out.extend(v for v in st.violations if v["fingerprint"] == payload["fingerprint"])
    return {"violations": out}
