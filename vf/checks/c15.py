"""
C15 - name server operations are atomic under concurrent clients.
Engine T, source-line granularity inside nameserver.NameServer and MemoryStorage (real objects, real threads);
for SqlStorage the storage methods are atomic steps (sqlite serialises them) and only NameServer's own lines interleave.
Oracle: brute-force linearizability against a dict model + the three stated consequences.
"""
import itertools
import os
import tempfile

from vf import sched as S
from vf.common import install_shims, coverage_from_stats, explore_parallel, run_unit
from vf.explore import Chooser, HarnessError

PID = "C15"
U1 = "PYRO:o1@h:1"
U2 = "PYRO:o2@h:2"

# operation alphabet (name -> (callable on real ns, callable on model))
OPS = {
    "regsafe_x": ("register", ("x", U1), {"safe": True}),
    "regsafe2_x": ("register", ("x", U2), {"safe": True}),
    "reg_x": ("register", ("x", U2), {}),
    "reg_x_meta": ("register", ("x", U1), {"metadata": ["m1"]}),
    "remove_x": ("remove", (), {"name": "x"}),
    "remove_xy": ("remove", (), {"name": "xy"}),
    "remove_prefix_x": ("remove", (), {"prefix": "x"}),
    "remove_regex_x": ("remove", (), {"regex": "x.*"}),
    "setmeta_x": ("set_metadata", ("x", ["m2"]), {}),
    "lookup_x": ("lookup", ("x",), {"return_metadata": True}),
    "list": ("list", (), {"return_metadata": True}),
    "list_prefix_x": ("list", (), {"prefix": "x"}),
    "count": ("count", (), {}),
    "regsafe_xy": ("register", ("xy", U1), {"safe": True}),
    "lookup_xy": ("lookup", ("xy",), {"return_metadata": True}),
}

POST_QUERIES = ["lookup_x", "lookup_xy", "list", "list_prefix_x", "count"]

INITS = {
    "empty": {},
    "x": {"x": (U1, frozenset())},
    "x_xy": {"x": (U1, frozenset(["m0"])), "xy": (U2, frozenset())},
}


class Model:
    def __init__(self, init):
        self.m = dict(init)

    def apply(self, opname):
        meth, args, kw = OPS[opname]
        m = self.m
        if meth == "register":
            name, uri = args
            if kw.get("safe") and name in m:
                return ("exc", "NamingError")
            m[name] = (uri, frozenset(kw.get("metadata") or ()))
            return ("ok", None)
        if meth == "remove":
            if kw.get("name"):
                if kw["name"] in m:
                    del m[kw["name"]]
                    return ("ok", 1)
                return ("ok", 0)
            if kw.get("prefix") or kw.get("regex"):
                pre = kw.get("prefix") or "x"
                names = [n for n in m if n.startswith(pre)]
                for n in names:
                    del m[n]
                return ("ok", len(names))
        if meth == "set_metadata":
            name, meta = args
            if name not in m:
                return ("exc", "NamingError")
            m[name] = (m[name][0], frozenset(meta))
            return ("ok", None)
        if meth == "lookup":
            if args[0] not in m:
                return ("exc", "NamingError")
            u, md = m[args[0]]
            return ("ok", (u, tuple(sorted(md))))
        if meth == "list":
            pre = kw.get("prefix")
            if pre:
                return ("ok", tuple(sorted((n, u) for n, (u, md) in m.items() if n.startswith(pre))))
            return ("ok", tuple(sorted((n, (u, tuple(sorted(md)))) for n, (u, md) in m.items())))
        if meth == "count":
            return ("ok", len(m))
        raise AssertionError(opname)

    def listing(self):
        return tuple(sorted((n, (u, tuple(sorted(md)))) for n, (u, md) in self.m.items()))


def norm(opname, value):
    meth = OPS[opname][0]
    if meth == "lookup":
        u, md = value
        return (str(u), tuple(sorted(md)))
    if meth == "list":
        if OPS[opname][2].get("prefix"):
            return tuple(sorted((n, str(u)) for n, u in value.items()))
        return tuple(sorted((n, (str(u), tuple(sorted(md or ())))) for n, (u, md) in value.items()))
    return value


def linearizable(init, history, final_listing):
    """history: list of (thread, opname, call_t, ret_t, result). brute force over all orders respecting real time"""
    after = [h for h in history if h[0] == "after"]      # asked sequentially once everything else had returned
    history = [h for h in history if h[0] != "after"]
    n = len(history)
    for perm in itertools.permutations(range(n)):
        ok = True
        pos = {h: i for i, h in enumerate(perm)}
        for a in range(n):
            for b in range(n):
                if a != b and history[a][3] < history[b][2] and pos[a] > pos[b]:
                    ok = False
                    break
            if not ok:
                break
        if not ok:
            continue
        mdl = Model(init)
        for idx in perm:
            if mdl.apply(history[idx][1]) != history[idx][4]:
                ok = False
                break
        if ok and (final_listing is None or mdl.listing() == final_listing) and all(mdl.apply(h[1]) == h[4] for h in after):
            return True
    return False


def make_run(cfg):
    install_shims()
    from Pyro5 import config, nameserver, errors
    if cfg["backend"] == "memory":
        watch = S.watch_functions(nameserver.NameServer, nameserver.MemoryStorage, nameserver.AutoCleaner.run, follow=True)
    else:
        watch = S.watch_functions(nameserver.NameServer, follow=True, exclude=S.code_objects(nameserver.SqlStorage))
    threads = cfg["threads"]     # list of lists of op names
    init = INITS[cfg["init"]]
    dbdir = "/dev/shm" if os.path.isdir("/dev/shm") else tempfile.gettempdir()
    dbfile = os.path.join(dbdir, "vf_c15_%d.sqlite" % os.getpid())

    def run_fn(chooser):
        config.reset(False)
        config.COMMTIMEOUT = float(cfg.get("commtimeout", 0.0))
        sch = S.Scheduler(chooser, watch=watch)
        sch.install()
        violations = []
        restore = []
        try:
            if cfg["backend"] == "memory":
                storage = None
            else:
                if os.path.exists(dbfile):
                    os.remove(dbfile)
                storage = nameserver.SqlStorage(dbfile)
            ns = nameserver.NameServer(storage)
            for name, (uri, md) in init.items():
                ns.storage[name] = (uri, set(md))
            clock = [0]
            history = []

            def make_thread(ti, ops):
                def body():
                    for op in ops:
                        meth, args, kw = OPS[op]
                        clock[0] += 1
                        call_t = clock[0]
                        try:
                            val = getattr(ns, meth)(*args, **kw)
                            res = ("ok", norm(op, val))
                        except errors.NamingError:
                            res = ("exc", "NamingError")
                        except S.AbortExecution:
                            raise
                        except Exception as x:
                            res = ("exc", type(x).__name__)
                        clock[0] += 1
                        history.append((ti, op, call_t, clock[0], res))
                return body
            for ti, ops in enumerate(threads):
                sch.spawn(make_thread(ti, ops), "client-%d" % ti, role="driver")
            cleaner_span = []
            if cfg.get("cleaner"):
                # the name server's own auto-clean thread makes one pass in which every registered server is unreachable for long enough:
                # it removes names through whatever path the library uses, concurrently with the clients
                config.NS_AUTOCLEAN = 1.0
                real_su = nameserver.socketutil

                class DeadNet:
                    def create_socket(self, *a, **k):
                        raise OSError(111, "Connection refused (harness)")

                    def __getattr__(self, name):
                        return getattr(real_su, name)
                nameserver.socketutil = DeadNet()
                restore.append(lambda: setattr(nameserver, "socketutil", real_su))
                nameserver.AutoCleaner.override_autoclean_min = True
                class OnePass(nameserver.AutoCleaner):
                    _asked = 0

                    @property
                    def stop(self):             # the loop condition: true from the second time it is asked
                        self._asked += 1
                        return self._asked > 1

                    @stop.setter
                    def stop(self, value):
                        pass
                ac = OnePass(ns)
                ac.last_cleaned = -1e9
                ac.unreachable = {n: -1e9 for n in ("x", "xy")}

                def cleaner_body():
                    clock[0] += 1
                    cleaner_span.append(clock[0])
                    ac.run()
                    clock[0] += 1
                    cleaner_span.append(clock[0])
                sch.spawn(cleaner_body, "cleaner", role="driver")
            outcome = sch.run()

            def V(fp, what):
                violations.append({"fingerprint": "C15|%s" % fp, "what": "%s [cfg=%s]" % (what, cfg), "replay": {"cfg": cfg}})
            if outcome == "deadlock":
                V("deadlock", "operations never returned: %r" % sch.threads)
            elif outcome != "quiescent":
                raise HarnessError("execution ended with %s" % outcome)
            for name, x in sch.errors:
                V("uncaught-%s" % type(x).__name__, "uncaught %r in %s" % (x, name))
            final = tuple(sorted((n, (u, tuple(sorted(md or ())))) for n, (u, md) in ns.storage.everything(return_metadata=True).items()))
            if outcome == "quiescent":
                # afterwards every query is asked once more, sequentially: what the name server answers from now on is part of the state
                # the concurrent operations left behind (a stale cache entry is as wrong as a stale row)
                for op in POST_QUERIES:
                    meth, args, kw = OPS[op]
                    clock[0] += 1
                    call_t = clock[0]
                    try:
                        res = ("ok", norm(op, getattr(ns, meth)(*args, **kw)))
                    except errors.NamingError:
                        res = ("exc", "NamingError")
                    except Exception as x:
                        res = ("exc", type(x).__name__)
                    clock[0] += 1
                    history.append(("after", op, call_t, clock[0], res))
            internal = [h for h in history if h[4][0] == "exc" and h[4][1] != "NamingError"]
            for h in internal:
                V("internal-error|%s|%s" % (OPS[h[1]][0], h[4][1]), "operation %s failed with internal error %s; history=%r" % (h[1], h[4][1], history))
            if outcome == "quiescent" and not internal:
                # stated consequences first (more specific fingerprints), then full linearizability
                safe_ok = [h for h in history if h[1].startswith("regsafe") and h[1].endswith("_x") and h[4] == ("ok", None)]
                if "x" not in init and len(safe_ok) > 1 and not any(OPS[h[1]][0] == "remove" for h in history):
                    V("two-safe-registrations-succeeded", "history=%r" % history)
                removals = [h for h in history if h[1] == "remove_x"]
                if len(removals) >= 2 and all(h[4][0] == "ok" for h in removals) and all(OPS[h[1]][0] in ("remove", "lookup", "list", "count") for h in history):
                    total = sum(h[4][1] for h in removals)
                    want = 1 if "x" in init else 0
                    if total != want and not any(h[1] != "remove_x" and OPS[h[1]][0] == "remove" for h in history):
                        V("removal-counts-sum-%d" % total, "concurrent removals of one name reported %d removed entries, expected %d; history=%r" % (total, want, history))
                variants = [history]
                if len(cleaner_span) == 2:
                    # what the cleaner did is not observed; whatever it was must be explainable as removals of the names it found
                    # unreachable, each somewhere within its pass (or nothing at all, if a client was quicker)
                    cx = ("cleaner", "remove_x", cleaner_span[0], cleaner_span[1], ("ok", 1))
                    cxy = ("cleaner", "remove_xy", cleaner_span[0], cleaner_span[1], ("ok", 1))
                    variants = [history, history + [cx], history + [cxy], history + [cx, cxy]]
                if not any(linearizable(init, hv, final) for hv in variants):
                    kinds = "+".join(sorted({OPS[h[1]][0] + ("-prefix" if OPS[h[1]][2].get("prefix") else "") + ("-regex" if OPS[h[1]][2].get("regex") else "") for h in history if h[0] != "after"}))
                    V("not-linearizable|%s" % kinds, "no sequential order explains results and final state; init=%s history=%r final=%r" % (cfg["init"], history, final))
            res = {"outcome": repr((outcome, tuple(sorted((str(h[0]), h[1], h[4]) for h in history)), final)),
                   "violations": violations,
                   "states": [repr(final)],
                   "sample": {"cfg": cfg, "history": [(h[0], h[1], h[2], h[3], repr(h[4])) for h in history][:6]}}
        finally:
            for f in restore:
                f()
            sch.teardown()
            if cfg["backend"] != "memory" and os.path.exists(dbfile):
                os.remove(dbfile)
        return res
    return run_fn


def task(unit):
    return run_unit(make_run, unit)


def configs(tier):
    quick = tier == "quick"
    out = []
    mut = ["regsafe_x", "regsafe2_x", "reg_x", "remove_x", "remove_prefix_x", "setmeta_x"]
    obs = ["lookup_x", "list"]
    pairs = []
    # two threads, one op each: every unordered pair over mutators+observers with at least one mutator
    allops = mut + obs + ["remove_regex_x", "reg_x_meta", "list_prefix_x", "count"]
    for a, b in itertools.combinations_with_replacement(allops, 2):
        if a in mut or b in mut or a == "remove_regex_x" or b == "remove_regex_x":
            pairs.append([[a], [b]])
    for init in INITS:
        for th in pairs:
            out.append({"backend": "memory", "init": init, "threads": th, "p": 3, "r": 10 ** 6})
    # two threads, two ops on one side (observer after mutator) - the 'reads see a consistent state' clause
    two = [[["regsafe_x", "lookup_x"], ["remove_x"]], [["remove_x", "list"], ["reg_x"]], [["reg_x", "remove_x"], ["remove_x"]],
           [["remove_prefix_x", "list"], ["regsafe_xy"]], [["setmeta_x", "lookup_x"], ["reg_x_meta"]],
           [["regsafe_x", "remove_x"], ["regsafe2_x", "lookup_x"]],
           [["lookup_x", "lookup_xy"], ["remove_prefix_x"]], [["lookup_xy", "lookup_x"], ["remove_regex_x"]],
           [["count", "count"], ["remove_prefix_x"]], [["lookup_x", "count"], ["remove_prefix_x"]]]
    for init in INITS:
        for th in two:
            out.append({"backend": "memory", "init": init, "threads": th, "p": 2 if quick else 3, "r": 10 ** 6})
    # three threads, one op each
    three = [["regsafe_x", "regsafe2_x", "remove_x"], ["remove_x", "remove_x", "remove_x"], ["regsafe_x", "regsafe2_x", "regsafe_x"],
             ["remove_x", "remove_x", "reg_x"], ["remove_prefix_x", "remove_x", "regsafe_xy"], ["setmeta_x", "remove_x", "regsafe_x"],
             ["remove_x", "remove_prefix_x", "lookup_x"]]
    for init in INITS:
        for t3 in three:
            out.append({"backend": "memory", "init": init, "threads": [[o] for o in t3], "p": 1 if quick else 2, "r": 4 if quick else 8})
    # a query in progress while two writers arrive (readers-writer style locking): two preemptions
    rww = [["list", "regsafe_x", "regsafe2_x"], ["lookup_xy", "regsafe_x", "regsafe2_x"], ["count", "remove_x", "remove_x"]]
    for t3 in rww:
        for init in (("empty", "x_xy") if t3[1] == "regsafe_x" else ("x",)):
            out.append({"backend": "memory", "init": init, "threads": [[o] for o in t3], "p": 2, "r": 4 if quick else 8})
    # a communication timeout is configured (anything in the name server that waits with a bound may see the bound run out)
    for th in ([["remove_x"], ["remove_x"]], [["regsafe_x"], ["regsafe2_x"]], [["setmeta_x"], ["remove_x"]]):
        out.append({"backend": "memory", "init": "x" if th[0][0] != "regsafe_x" else "empty", "threads": th, "commtimeout": 2.0, "p": 2, "r": 10 ** 6})
    # the auto-clean thread removes unreachable names while clients work on them
    for th in ([["remove_x"]], [["lookup_x", "lookup_x"]], [["setmeta_x"]], [["list_prefix_x"]], [["regsafe_x"]]):
        for init in ("x", "x_xy"):
            out.append({"backend": "memory", "init": init, "threads": th, "cleaner": True, "p": 2, "r": 10 ** 6})
    # sqlite back-end: NameServer lines interleave, storage calls are atomic steps
    sql_pairs = [[["remove_x"], ["remove_x"]], [["regsafe_x"], ["regsafe2_x"]], [["remove_prefix_x"], ["regsafe_xy"]],
                 [["setmeta_x"], ["remove_x"]], [["remove_x"], ["reg_x"]], [["remove_regex_x"], ["remove_x"]]]
    for init in (["x", "empty"] if quick else list(INITS)):
        for th in (sql_pairs[:4] if quick else sql_pairs):
            out.append({"backend": "sql", "init": init, "threads": th, "p": 1 if quick else 2, "r": 10 ** 6})
    for c in out:
        c["horizon"] = 2000
    return out


def run(ctx):
    cfgs = configs(ctx.tier)
    stats = explore_parallel(ctx, task, cfgs, lambda c: c["p"], lambda c: c["r"])
    cov = coverage_from_stats(
        stats,
        rule="every schedule (source-line granularity inside NameServer+MemoryStorage; storage-call granularity for SqlStorage) of 2-3 "
             "client threads x 1-2 operations from {safe/unsafe register, remove by name/prefix/regex, set_metadata, lookup, list, count} on "
             "shared names from 3 initial maps, within per-config preemption/reordering bounds; every complete history is checked for "
             "linearizability against a dict model by brute force; distinct = distinct (results, final map) vectors",
        extra={"configs": len(cfgs), "budgets_p_r": sorted({(c["p"], min(c["r"], 99)) for c in cfgs})})
    return {"violations": stats.violations, "coverage": cov,
            "assumptions": ["line granularity; sqlite statements of one storage call are one atomic step",
                            "RLock replaced by a cooperative re-entrant lock"]}


def replay(ctx, payload):
    cfg = payload["replay"]["cfg"]
    run_fn = make_run(cfg)
    res = run_fn(Chooser([tuple(c) for c in payload["choices"]]))
    res2 = run_fn(Chooser([tuple(c) for c in payload["choices"]]))
    if res["outcome"] != res2["outcome"]:
        raise HarnessError("replay is not deterministic")
    return {"outcome": res["outcome"], "violations": res["violations"]}
