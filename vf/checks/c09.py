"""
C09 - instance modes: one per daemon, one per connection, or one per call.
Engine S (histories of connections opening/calling/closing, all instance shapes and creators, over the synchronous transport)
+ engine T (all schedules of concurrent first calls inside Daemon._getInstance at line granularity).
"""
import gc
import itertools
import weakref

from vf.explore import Stats, HarnessError, Chooser
from vf.common import coverage_from_stats, install_shims, explore_parallel, run_unit
from vf.values import show

PID = "C09"
MODES = ["single", "session", "percall"]
SHAPES = ["truthy", "falsy_len", "falsy_bool", "eq_always_true", "eq_always_false"]
CREATORS = ["none", "counting", "fails_first", "wrong_type", "returns_subclass", "fails_first_typeerror"]


class Registry:
    def __init__(self):
        self.serial = 0
        self.instances = []      # weakrefs, by serial
        self.creator_calls = 0
        self.creator_failures = 0


def make_class(mode, shape, creator, reg, server):
    ns = {}

    def init(self):
        reg.serial += 1
        self.serial = reg.serial
        reg.instances.append(weakref.ref(self))
    ns["__init__"] = init

    def who(self):
        return self.serial
    ns["who"] = who
    if shape == "falsy_len":
        ns["__len__"] = lambda self: 0
    elif shape == "falsy_bool":
        ns["__bool__"] = lambda self: False
    elif shape == "eq_always_true":
        ns["__eq__"] = lambda self, other: True
        ns["__hash__"] = lambda self: 7
    elif shape == "eq_always_false":
        ns["__eq__"] = lambda self, other: False
        ns["__hash__"] = lambda self: 7
    cls = type("Inst_%s_%s" % (mode, shape), (object,), ns)
    cls = server.expose(cls)
    cr = None
    if creator == "counting":
        def cr(clazz):
            reg.creator_calls += 1
            return clazz()
    elif creator == "fails_first":
        def cr(clazz):
            reg.creator_calls += 1
            if reg.creator_calls == 1:
                reg.creator_failures += 1
                raise RuntimeError("creator fails the first time")
            return clazz()
    elif creator == "fails_first_typeerror":
        def cr(*a):         # a creator with a permissive signature whose own code raises TypeError the first time
            reg.creator_calls += 1
            if reg.creator_calls == 1:
                reg.creator_failures += 1
                raise TypeError("creator's own failure")
            return a[0]()
    elif creator == "returns_subclass":
        sub = type(cls.__name__ + "Sub", (cls,), {})

        def cr(clazz):
            reg.creator_calls += 1
            return sub()        # a factory may hand out an instance of a subclass: it is an instance of the registered class
    elif creator == "wrong_type":
        def cr(clazz):
            reg.creator_calls += 1
            reg.creator_failures += 1
            return object()
    cls = server.behavior(instance_mode=mode, instance_creator=cr)(cls)
    return cls


REREG = ("by-object", "by-id", "displaced")


def histories(maxlen, nconn):
    """valid histories in canonical form (connections are introduced in index order)"""
    out = []

    def rec(h, opened, closed, used, rereg=False):
        out.append(list(h))
        if len(h) >= maxlen:
            return
        if not rereg and len(h) < maxlen - 1:
            # the class is unregistered and registered again under the same id (at most once per history): the daemon and the
            # open connections stay, so the instances that serve them stay as well
            for kind in REREG:
                rec(h + [("rereg", kind)], opened, closed, used, True)
        for i in range(min(used + 1, nconn)):
            if i not in opened and i not in closed:
                if i <= used:
                    rec(h + [("open", i)], opened | {i}, closed, max(used, i + 1) if i == used else used, rereg)
            elif i in opened:
                rec(h + [("call", i)], opened, closed, used, rereg)
                rec(h + [("close", i)], opened - {i}, closed | {i}, used, rereg)
                rec(h + [("reset", i)], opened - {i}, closed | {i}, used, rereg)     # abortive end (peer reset)
    rec([], frozenset(), frozenset(), 0)
    return out


def run_histories(unit):
    from vf.syncworld import SyncWorld
    from Pyro5 import client, server, errors
    mode, shape, creator, maxlen, nconn = unit
    st = Stats()
    seen = set()

    def V(fp, what, h):
        fp = "C09|" + fp
        if fp not in seen:
            seen.add(fp)
            st.violations.append({"fingerprint": fp, "what": "%s [mode=%s shape=%s creator=%s history=%s]" % (what, mode, shape, creator, h),
                                  "replay": {"unit": [mode, shape, creator, maxlen, nconn], "history": [list(o) for o in h]}})
    gc.disable()
    w = SyncWorld()
    try:
        for h in histories(maxlen, nconn):
            st.executions += 1
            if st.executions % 300 == 0:
                # a fresh world now and then (the in-memory network keeps every socket it ever made: replays got slower and slower)
                if w.net.pump_errors:
                    V("daemon-loop-error", "%r" % w.net.pump_errors[:2], [])
                w.close()
                gc.collect()
                w = SyncWorld()
            reg = Registry()
            cls = make_class(mode, shape, creator, reg, server)
            d = w.daemon()
            d.register(cls, "obj")
            uri = "PYRO:obj@h:%d" % w._port
            proxies = {}
            # model
            m_single = None
            m_session = {}
            m_creations = 0
            m_creator_calls = 0
            serials_by_conn = {}
            all_serials = []
            for op, i in h:
                st.points += 1
                if op == "rereg":
                    try:
                        if i == "by-object":
                            d.unregister(cls)
                            d.register(cls, "obj")
                        elif i == "by-id":
                            d.unregister("obj")
                            d.register(cls, "obj")
                        else:
                            d.register(server.expose(type("Other", (object,), {})), "obj", force=True)
                            d.register(cls, "obj", force=True)
                    except Exception as x:
                        V("re-registration-failed|%s|%s" % (i, type(x).__name__), "%r" % x, h)
                        break
                elif op == "open":
                    proxies[i] = client.Proxy(uri)
                    proxies[i]._pyroBind()
                elif op in ("close", "reset"):
                    if op == "reset" and proxies[i]._pyroConnection is not None:
                        proxies[i]._pyroConnection.sock.do_reset()
                        proxies[i]._pyroConnection = None
                    proxies[i]._pyroRelease()
                    if i in m_session:
                        dead = m_session.pop(i)
                        r = reg.instances[dead - 1]
                        if r() is not None:
                            gc.collect()
                        if r() is not None:
                            V("session-instance-survives-connection", "instance %d still alive after its connection ended" % dead, h)
                elif op == "call":
                    try:
                        got = ("ok", proxies[i]._pyroInvoke("who", (), {}))
                    except errors.CommunicationError as x:
                        got = ("comm", repr(x))
                    except Exception as x:
                        got = ("exc", type(x).__name__)
                    # what the model expects
                    need_create = (mode == "percall") or (mode == "single" and m_single is None) or (mode == "session" and i not in m_session)
                    expect_fail = False
                    if need_create and creator != "none":
                        m_creator_calls += 1
                        if creator == "wrong_type" or (creator in ("fails_first", "fails_first_typeerror") and m_creator_calls == 1):
                            expect_fail = True
                    if expect_fail:
                        if got[0] == "ok":
                            V("call-served-although-creation-failed", "got %r" % (got,), h)
                        continue
                    if got[0] != "ok":
                        V("call-failed|%s" % got[0], "%r" % (got,), h)
                        continue
                    serial = got[1]
                    if need_create:
                        m_creations += 1
                        if serial != reg.serial or serial in all_serials:
                            V("expected-fresh-instance|%s" % mode, "call served by instance %r, newest is %d, seen before: %r" % (serial, reg.serial, all_serials), h)
                        if mode == "single":
                            m_single = serial
                        elif mode == "session":
                            m_session[i] = serial
                    else:
                        want = m_single if mode == "single" else m_session[i]
                        if serial != want:
                            V("instance-%s|%s|%s" % ("recreated" if serial not in all_serials else "shared-with-other-connection", mode, shape),
                              "connection %d served by instance %r, its instance is %d" % (i, serial, want), h)
                            if mode == "single":
                                m_single = serial
                            else:
                                m_session[i] = serial
                    all_serials.append(serial)
            # totals
            if creator != "none" and reg.creator_calls != m_creator_calls:
                V("creator-call-count|%s|%s" % (mode, "more" if reg.creator_calls > m_creator_calls else "fewer"), "creator called %d times, model %d" % (reg.creator_calls, m_creator_calls), h)
            if reg.serial != m_creations + (0 if creator != "wrong_type" else 0) and creator != "wrong_type":
                V("instances-created|%s|%s|%s" % (mode, shape, "more" if reg.serial > m_creations else "fewer"), "%d instances constructed, model %d" % (reg.serial, m_creations), h)
            for p in proxies.values():
                p._pyroRelease()
            w.net.detach_sync(d)
            d.close()
            w.daemons.remove(d)
            oc = "%s:%s:%s:%d" % (mode, shape, creator, reg.serial)
            st.outcomes[oc] = st.outcomes.get(oc, 0) + 1
            st.states.add((mode, shape, creator, tuple(h)))
            if len(st.samples) < 1 and len(h) == maxlen:
                st.samples.append({"mode": mode, "shape": shape, "creator": creator, "history": h, "instances": reg.serial})
        if w.net.pump_errors:
            V("daemon-loop-error", "%r" % w.net.pump_errors[:2], [])
    finally:
        w.close()
        gc.enable()
        gc.collect()
    return st


def run_daemons(unit):
    """several daemons of one process serve the same class: 'single' means one instance per daemon; a daemon started after another
    one was shut down starts afresh. histories over {call via daemon 0, call via daemon 1, shut daemon 0 down and start a new one}"""
    from vf.syncworld import SyncWorld
    from Pyro5 import client, server, errors
    mode, creator, maxlen = unit
    st = Stats()
    seen = set()

    def V(fp, what, h):
        fp = "C09|" + fp
        if fp not in seen:
            seen.add(fp)
            st.violations.append({"fingerprint": fp, "what": "%s [mode=%s creator=%s history=%s]" % (what, mode, creator, h), "replay": {"daemons_unit": [mode, creator, maxlen], "history": list(h)}})
    gc.disable()
    w = SyncWorld()
    try:
        for n in range(1, maxlen + 1):
            for h in itertools.product(("call0", "call1", "restart0"), repeat=n):
                st.executions += 1
                reg = Registry()
                cls = make_class(mode, "truthy", creator, reg, server)
                ds, proxies = {}, {}

                def start(k):
                    d = w.daemon()
                    d.register(cls, "obj")
                    ds[k] = d
                    proxies[k] = client.Proxy("PYRO:obj@h:%d" % w._port)

                def stop(k):
                    proxies[k]._pyroRelease()
                    w.net.detach_sync(ds[k])
                    ds[k].close()
                    w.daemons.remove(ds[k])
                start(0)
                start(1)
                m_inst = {}         # daemon slot -> serial of its single/session instance
                m_creations = 0
                seen_serials = []
                for op in h:
                    st.points += 1
                    k = int(op[-1])
                    if op.startswith("restart"):
                        stop(k)
                        start(k)
                        m_inst.pop(k, None)
                        continue
                    try:
                        serial = proxies[k]._pyroInvoke("who", (), {})
                    except Exception as x:
                        V("call-failed|daemons|%s" % type(x).__name__, "%r" % x, h)
                        break
                    fresh = mode == "percall" or k not in m_inst
                    if fresh:
                        m_creations += 1
                        if serial in seen_serials:
                            V("instance-shared-between-daemons|%s" % mode, "daemon slot %d answered with instance %d which served %r before" % (k, serial, seen_serials), h)
                        m_inst[k] = serial
                    elif serial != m_inst[k]:
                        V("instance-recreated|daemons|%s" % mode, "daemon slot %d served by %d, its instance is %d" % (k, serial, m_inst[k]), h)
                        m_inst[k] = serial
                    seen_serials.append(serial)
                else:
                    if reg.serial != m_creations:
                        V("instances-created|daemons|%s|%s" % (mode, "more" if reg.serial > m_creations else "fewer"), "%d constructed, model %d" % (reg.serial, m_creations), h)
                    if creator == "counting" and reg.creator_calls != m_creations:
                        V("creator-call-count|daemons|%s" % mode, "creator called %d times, model %d" % (reg.creator_calls, m_creations), h)
                for k in list(ds):
                    stop(k)
                oc = "daemons:%s:%s:%d" % (mode, creator, reg.serial)
                st.outcomes[oc] = st.outcomes.get(oc, 0) + 1
                st.states.add((mode, "daemons", creator, h))
        if w.net.pump_errors:
            V("daemon-loop-error", "%r" % w.net.pump_errors[:2], [])
    finally:
        w.close()
        gc.enable()
        gc.collect()
    return st


# ------------------------------------------------------------------------------------------------ schedules
class FakeConn:
    def __init__(self):
        self.pyroInstances = {}


def run_after_close(unit):
    """'exactly one instance per daemon *ever* serves calls': a connection that outlives Daemon.close() (the thread-pool server's workers go
    on serving established connections after shutdown) is still served by the daemon's one instance. _getInstance is driven directly."""
    from vf.syncworld import SyncWorld
    from Pyro5 import server
    mode, creator = unit
    st = Stats()
    gc.disable()
    w = SyncWorld()
    try:
        for nbefore in (1, 2):
            st.executions += 1
            reg = Registry()
            cls = make_class(mode, "truthy", creator, reg, server)
            d = w.daemon()
            d.register(cls, "obj")
            conns = [FakeConn(), FakeConn()]
            before = [d._getInstance(cls, conns[i % 2]).serial for i in range(nbefore)]
            w.net.detach_sync(d)
            d.close()
            w.daemons.remove(d)
            after = [d._getInstance(cls, conns[i % 2]).serial for i in range(2)]
            st.points += nbefore + 3
            if mode == "single" and len(set(before + after)) != 1:
                st.violations.append({"fingerprint": "C09|single-instance-replaced-after-daemon-close", "what": "instances %r served before Daemon.close(), %r on the surviving connections afterwards [creator=%s]" % (before, after, creator),
                                      "replay": {"after_close_unit": [mode, creator]}})
            if mode == "session" and (after[0] != before[0] or (nbefore == 2 and after[1] != before[1])):
                st.violations.append({"fingerprint": "C09|session-instance-replaced-after-daemon-close", "what": "before %r after %r" % (before, after), "replay": {"after_close_unit": [mode, creator]}})
            st.outcomes["after-close:%s:%d" % (mode, reg.serial)] = 1
            st.states.add((mode, "after-close", creator, nbefore))
    finally:
        w.close()
        gc.enable()
        gc.collect()
    return st


def make_sched_run(cfg):
    from vf import sched as S
    from vf.memnet import MemNet
    install_shims()
    from Pyro5 import server, config
    watch = S.watch_functions(server.Daemon._getInstance, follow=True)

    def run_fn(chooser):
        config.reset(False)
        config.COMMTIMEOUT = float(cfg.get("commtimeout", 0.0))
        sch = S.Scheduler(chooser, watch=watch)
        sch.install()
        violations = []
        d = net = None
        try:
            reg = Registry()
            cls = make_class(cfg["mode"], cfg["shape"], cfg["creator"], reg, server)
            # a real daemon (multiplex transport on the in-memory network; its loop is not run: _getInstance is driven directly)
            config.SERVERTYPE = "multiplex"
            net = MemNet()
            net.install()
            d = server.Daemon(host="h", port=1)
            conns = [FakeConn() for _ in range(cfg["threads"])] if not cfg.get("same_conn") else [FakeConn()] * cfg["threads"]
            results = {}
            failed = []

            def body(i):
                def f():
                    out = []
                    for _ in range(cfg["calls"]):
                        try:
                            inst = d._getInstance(cls, conns[i])
                        except RuntimeError as x:
                            if "creator fails" not in str(x):
                                raise
                            failed.append(i)       # the creator's own failure reaches the caller whose call triggered it
                            continue
                        out.append(inst.serial)
                    results[i] = out
                return f
            for i in range(cfg["threads"]):
                sch.spawn(body(i), "caller-%d" % i)
            outcome = sch.run()

            def V(fp, what):
                violations.append({"fingerprint": "C09|" + fp, "what": "%s [cfg=%s]" % (what, cfg), "replay": {"sched_cfg": cfg}})
            if outcome != "quiescent":
                V("deadlock-in-getInstance", "outcome %s: %r" % (outcome, sch.threads))
            for name, x in sch.errors:
                V("uncaught-%s" % type(x).__name__, "%r in %s" % (x, name))
            serials = sorted({s for r in results.values() for s in r})
            if cfg["mode"] == "single":
                if len(serials) > 1 or reg.serial > 1:
                    V("single-mode-several-instances|concurrent", "calls were served by instances %r, %d constructed" % (serials, reg.serial))
                if cfg["creator"] == "counting" and reg.creator_calls != 1:
                    V("creator-call-count|single|concurrent", "creator called %d times" % reg.creator_calls)
                if cfg["creator"] == "fails_first":
                    if reg.creator_calls != reg.serial + reg.creator_failures or len(failed) != reg.creator_failures:
                        V("creator-call-count|single|concurrent|failing-creator", "creator called %d times, %d failed, %d instances constructed, %d calls failed"
                          % (reg.creator_calls, reg.creator_failures, reg.serial, len(failed)))
            elif cfg["mode"] == "session":
                for i, r in results.items():
                    if len(set(r)) != 1:
                        V("session-instance-recreated|concurrent", "connection %d served by %r" % (i, r))
                firsts = [r[0] for r in results.values() if r]
                if not cfg.get("same_conn") and len(set(firsts)) != len(firsts):
                    V("session-instance-shared|concurrent", "%r" % results)
                if cfg.get("same_conn") and False:
                    pass
            return {"outcome": repr((outcome, sorted(results.items()), reg.serial, reg.creator_calls, sorted(failed))), "violations": violations,
                    "sample": {"cfg": cfg, "results": sorted(results.items())}}
        finally:
            sch.teardown()
            try:
                if d is not None:
                    d.close()
            except Exception:
                pass
            if net is not None:
                net.uninstall()
    return run_fn


def sched_task(unit):
    return run_unit(make_sched_run, unit)


def run(ctx):
    quick = ctx.quick
    total = Stats()
    maxlen = 5 if quick else 6
    # (thorough: three connections for the two plainest shapes and three creators, two connections for the rest: 327k histories)
    units = [(m, s, c, maxlen if (s in ("truthy", "falsy_len") or not quick) else 4,
              3 if (not quick and s in ("truthy", "falsy_len") and c in ("none", "counting", "fails_first")) else 2) for m in MODES for s in SHAPES for c in CREATORS]
    for st in ctx.pmap(run_histories, units):
        total.merge(st)
    for st in ctx.pmap(run_daemons, [(m, c, 4 if quick else 6) for m in MODES for c in ("none", "counting")]):
        total.merge(st)
    for st in ctx.pmap(run_after_close, [(m, c) for m in ("single", "session") for c in ("none", "counting")]):
        total.merge(st)
    scfgs = []
    for shape in ("truthy", "eq_always_false") + (() if quick else ("falsy_len",)):
        for creator in ("none", "counting"):
            scfgs.append({"mode": "single", "shape": shape, "creator": creator, "threads": 2, "calls": 2, "p": 2 if quick else 3, "r": 10 ** 6})
            scfgs.append({"mode": "single", "shape": shape, "creator": creator, "threads": 3, "calls": 1, "p": 2, "r": 4 if quick else 8})
    # a creator that fails the first time it is called: the caller that triggered it gets the error, the others still share one instance
    scfgs.append({"mode": "single", "shape": "truthy", "creator": "fails_first", "threads": 2, "calls": 2, "p": 2 if quick else 3, "r": 10 ** 6})
    scfgs.append({"mode": "single", "shape": "truthy", "creator": "fails_first", "threads": 3, "calls": 1, "p": 2, "r": 4 if quick else 8})
    scfgs.append({"mode": "session", "shape": "truthy", "creator": "counting", "threads": 2, "calls": 2, "p": 2, "r": 10 ** 6})
    # with a communication timeout configured (bounded waits inside the daemon may run out)
    scfgs.append({"mode": "single", "shape": "truthy", "creator": "counting", "threads": 2, "calls": 1, "commtimeout": 2.0, "p": 2, "r": 10 ** 6})
    scfgs.append({"mode": "single", "shape": "truthy", "creator": "counting", "threads": 3, "calls": 1, "commtimeout": 2.0, "p": 2, "r": 4})
    sst = explore_parallel(ctx, sched_task, scfgs, lambda c: c["p"], lambda c: c["r"])
    total.violations.extend(sst.violations)
    total.extra["schedules_explored"] = sst.executions
    total.extra["schedule_points"] = sst.points
    total.extra["schedule_outcomes"] = len(sst.outcomes)
    total.executions += sst.executions
    total.points += sst.points
    cov = coverage_from_stats(
        total,
        rule="(1) every valid history (canonical connection order) of open/call/close steps of up to %d connections, length <= %d, for 3 instance modes x 5 instance shapes "
             "(truthy, falsy via __len__, falsy via __bool__, __eq__ always True / always False with constant hash) x 4 creators (none, counting, failing once, wrong "
             "type), each on a fresh real daemon over the in-memory transport, against a serial-number model (which instance served each call, constructor and creator "
             "counts, session instance dead after its connection); (1b) every sequence (length <= %d) of {call via daemon A, call via daemon B, shut A down and start "
             "a new daemon} with two daemons of the process serving the same class; (2) every schedule (line granularity inside Daemon._getInstance, preemption bound 2/3) of 2-3 "
             "threads making concurrent first calls; distinct = (mode, shape, creator, history) cases" % (2 if quick else 3, maxlen, 4 if quick else 6),
        nontrivial=len(total.states))
    return {"violations": total.violations, "coverage": cov,
            "assumptions": ["schedule part drives Daemon._getInstance of a real daemon directly, with stand-in connection objects"]}


def replay(ctx, payload):
    r = payload["replay"]
    if "sched_cfg" in r:
        res = make_sched_run(r["sched_cfg"])(Chooser([tuple(c) for c in payload["choices"]]))
        return {"violations": res["violations"]}
    if "after_close_unit" in r:
        st = run_after_close(tuple(r["after_close_unit"]))
        return {"violations": [v for v in st.violations if v["fingerprint"] == payload["fingerprint"]]}
    if "daemons_unit" in r:
        st = run_daemons(tuple(r["daemons_unit"]))
        return {"violations": [v for v in st.violations if v["fingerprint"] == payload["fingerprint"]]}
    st = run_histories(tuple(r["unit"]))
    return {"violations": [v for v in st.violations if v["fingerprint"] == payload["fingerprint"]]}
