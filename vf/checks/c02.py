"""
C02 - only explicitly exposed, non-private members are remotely reachable.
Engine S (programs x inputs): generated class shapes (built with the real decorators) x requested names x five request kinds,
sent past the client-side filter through Proxy._pyroInvoke into a real Daemon; reference predicate computed from the shape spec.
"""
import gc
import itertools

from vf.explore import Stats
from vf.common import coverage_from_stats
from vf.values import show

PID = "C02"

KINDS = ["method", "static", "classm", "prop_ro", "prop_rw", "prop_wo", "classattr", "instattr", "helper_inst", "helper_callable", "helper_cls", "func_attr", "shadow"]
WHERE = ["base", "sub", "override"]
EXPOSURE = ["none", "member", "defclass", "otherclass"]
NAMES = ["m", "_m", "__m__", "__enter__"]
REQ = ["call", "oneway", "batch", "getattr", "setattr", "getattr_x", "setattr_x", "call_kw"]
CODE_KINDS = ("method", "static", "classm", "prop_ro", "prop_rw", "prop_wo", "shadow")


def reserved_dunders():
    from Pyro5 import server
    return sorted(server._private_dunder_methods)


def model_private(name):
    """the property's private-name predicate: leading underscore, or one of the reserved dunder names"""
    if name in reserved_dunders():
        return True
    if not name.startswith("_"):
        return False
    if len(name) > 4 and name.startswith("__") and name.endswith("__"):
        return False
    return True


def specs(quick):
    out = []
    for kind, where, exp, mname in itertools.product(KINDS, WHERE, EXPOSURE, NAMES):
        if kind in ("classattr", "instattr", "helper_inst", "helper_callable", "helper_cls", "func_attr") and exp == "member":
            continue    # a decorator cannot be put on a plain attribute
        oneways = (False, True) if kind in ("method", "static", "classm", "shadow") and mname == "m" else (False,)
        for ow in oneways:
            if quick and where == "override" and mname in ("__m__", "__enter__"):
                continue
            out.append((kind, where, exp, ow, mname))
    return out


def build(spec, server):
    """returns (registered class, log, refused_by_decorator, info)"""
    kind, where, exp, ow, mname = spec
    log = []
    refused = []

    def fn(label):
        def member(*a, **k):
            log.append((label, mname, "call"))
            return "R:" + label
        member.__name__ = mname
        return member

    def helper_class(callable_):
        ns = {}

        def hm(self):
            log.append(("helper", "hm", "call"))
            return "helper-result"
        ns["hm"] = hm
        if callable_:
            def call(self, *a, **k):
                log.append(("helper", "__call__", "call"))
                return "helper-called"
            ns["__call__"] = call

        def init(self, *a, **k):
            log.append(("helper", "__init__", "call"))
        ns["__init__"] = init
        return server.expose(type("Helper", (object,), ns))

    def make(label, override_marker=""):
        """the member object to be put in a class namespace (or None for instance-level kinds)"""
        f = fn(label)
        if ow:
            f = server.oneway(f)

        def maybe_expose(x):
            if exp == "member":
                try:
                    return server.expose(x)
                except AttributeError as e:
                    refused.append(str(e))
            return x
        if kind in ("method", "shadow"):
            return maybe_expose(f)
        if kind == "static":
            return staticmethod(maybe_expose(f))
        if kind == "classm":
            return classmethod(maybe_expose(f))
        if kind in ("prop_ro", "prop_rw", "prop_wo"):
            def getter(self):
                log.append((label, mname, "get"))
                return "G:" + label

            def setter(self, v):
                log.append((label, mname, "set"))
                self.__dict__["_stored"] = v
            getter.__name__ = setter.__name__ = mname
            p = property(getter if kind != "prop_wo" else None, setter if kind != "prop_ro" else None)
            return maybe_expose(p)
        if kind == "classattr":
            return 42
        return None

    base_ns, sub_ns = {}, {}

    def ctl(self):
        log.append(("ctl", "ctl", "call"))
        return "ctl"
    sub_ns["ctl"] = server.expose(ctl)
    if where in ("base", "override"):
        m = make("base")
        if m is not None:
            base_ns[mname] = m
    if where in ("sub", "override"):
        m = make("sub")
        if m is not None:
            sub_ns[mname] = m
    inst_attr = None
    if kind == "instattr":
        inst_attr = lambda: "plain-value"
    elif kind == "helper_inst":
        hc = helper_class(False)
        inst_attr = lambda: hc()
    elif kind == "helper_callable":
        hc = helper_class(True)
        inst_attr = lambda: hc()
    elif kind == "helper_cls":
        hc = helper_class(False)
        inst_attr = lambda: hc
    elif kind == "shadow":
        def shadowing(*a, **k):
            log.append(("shadow", mname, "call"))
            return "shadow"
        inst_attr = lambda: shadowing
    elif kind == "func_attr":
        def free(*a, **k):
            log.append(("free", mname, "call"))
            return "free"
        ef = server.expose(free)
        inst_attr = lambda: ef

    def init(self):
        if inst_attr is not None:
            self.__dict__[mname] = inst_attr()
    sub_ns["__init__"] = init
    Base = type("ShapeBase", (object,), base_ns)
    defining = "base" if where == "base" else "sub"
    if (exp == "defclass" and defining == "base") or (exp == "otherclass" and defining == "sub"):
        Base = server.expose(Base)
    Sub = type("ShapeSub", (Base,), sub_ns)
    if (exp == "defclass" and defining == "sub") or (exp == "otherclass" and defining == "base"):
        Sub = server.expose(Sub)
    return Sub, log, refused


def expected(spec):
    """from the specification only: is the member under test servable, and in which metadata set"""
    kind, where, exp, ow, mname = spec
    exposed = exp in ("member", "defclass") and kind in CODE_KINDS
    if model_private(mname):
        exposed = False
    md = {"methods": {"ctl"}, "attrs": set(), "oneway": set()}
    if kind == "shadow":
        # on this object the name denotes the unexposed function in the instance dict: nothing may run.
        # the advertised list is computed from the class, where the name is an exposed method
        if exposed:
            md["methods"].add(mname)
            if ow:
                md["oneway"].add(mname)
        return False, md
    if exposed:
        if kind in ("method", "static", "classm"):
            md["methods"].add(mname)
            if ow:
                md["oneway"].add(mname)
        else:
            md["attrs"].add(mname)
    return exposed, md


def requested_names(spec):
    mname = spec[4]
    names = [mname, "m", "_m", "__m__", "ctl", "ctl.__func__", "%s.hm" % mname, "%s.__class__" % mname, "ｍ", "", " m", "M", "_stored", "__dict__", "__class__",
             "__init__", "__getattribute__", "__setattr__", "__reduce__", "__call__", "_pyroId", "_pyroDaemon", None, 5, b"m", ["m"], {"m": 1}, 1.5, True]
    out = []
    for n in names + reserved_dunders()[::3]:
        if not any(n is o or (type(n) is type(o) and n == o) for o in out):
            out.append(n)
    return out


def snapshot(obj, classes):
    d = {k: (id(v) if not isinstance(v, (str, int, float)) else v) for k, v in obj.__dict__.items()}
    c = []
    for cl in classes:
        c.append(tuple(sorted((k, id(v)) for k, v in vars(cl).items() if k not in ("__dict__", "__weakref__"))))
    return d, tuple(c)


def run_config(unit):
    from vf.syncworld import SyncWorld
    from Pyro5 import client, server, errors, protocol, core
    spec_list, quick = unit
    st = Stats()
    seen = set()

    def V(fp, what, case):
        fp = "C02|" + fp
        if fp not in seen:
            seen.add(fp)
            st.violations.append({"fingerprint": fp, "what": "%s [case=%s]" % (what, show(case, 300)), "replay": {"spec": list(case[0])}})
    gc.disable()
    w = SyncWorld(SERIALIZER="serpent")
    try:
        d = w.daemon()
        for spec in spec_list:
            kind, where, exp, ow, mname = spec
            fexp = exp if not kind.startswith("helper") else "any"     # exposure of the holder is irrelevant for helper objects
            try:
                cls, log, refused = build(spec, server)
            except Exception as x:
                V("shape-cannot-be-built|%s" % type(x).__name__, "%r" % x, (spec,))
                continue
            if exp == "member" and kind in CODE_KINDS:
                if model_private(mname) != bool(refused):
                    V("expose-decorator-%s-private-name" % ("accepted" if not refused else "refused-public"), "expose on %r: refused=%r" % (mname, refused), (spec,))
            obj = cls()
            del log[:]
            d.register(obj, "target", force=True)
            proxy = client.Proxy("PYRO:target@h:1")
            dproxy = client.Proxy("PYRO:%s@h:1" % core.DAEMON_NAME)
            exposed, want_md = expected(spec)
            # ---- metadata
            # (the member cache is deliberately not reset: every shape is a fresh class object, as a class factory would produce)
            try:
                md = dproxy._pyroInvoke("get_metadata", ["target"], {})
                got_md = {k: set(md[k]) for k in ("methods", "attrs", "oneway")}
            except Exception as x:
                got_md = {"error": repr(x)}
            if got_md != want_md and kind != "func_attr":
                for k in ("methods", "attrs", "oneway"):
                    extra = sorted(got_md.get(k, set()) - want_md[k]) if "error" not in got_md else ["<error>"]
                    missing = sorted(want_md[k] - got_md.get(k, set()))
                    if extra:
                        V("metadata-advertises-unservable|%s|%s|%s|%s" % (k, kind, exp, "private" if model_private(mname) else "public"), "advertised %r, specification allows %r" % (got_md, want_md), (spec,))
                    if missing:
                        V("metadata-omits-servable|%s|%s|%s" % (k, kind, exp), "advertised %r, specification allows %r" % (got_md, want_md), (spec,))
            proxy._pyroBind()
            for name in requested_names(spec):
                for req in REQ:
                    st.executions += 1
                    st.points += 1
                    del log[:]
                    obj.__dict__.pop("_stored", None)
                    before = snapshot(obj, cls.__mro__[:2])
                    if proxy._pyroConnection is None:
                        proxy._pyroBind()     # (re)connect first, so that handshake traffic is not mistaken for a reply
                    inbuf_before = proxy._pyroConnection.sock.bytes_in
                    try:
                        if req == "call":
                            r = proxy._pyroInvoke(name, (), {})
                        elif req == "oneway":
                            r = proxy._pyroInvoke(name, (), {}, flags=protocol.FLAGS_ONEWAY)
                        elif req == "batch":
                            r = proxy._pyroInvokeBatch([(name, (), {})])
                            if r and isinstance(r[0], core._ExceptionWrapper):
                                raise r[0].exception
                        elif req == "getattr":
                            r = proxy._pyroInvoke("__getattr__", (name,), None)
                        elif req == "getattr_x":       # surplus positional argument supplied by the peer
                            r = proxy._pyroInvoke("__getattr__", (name, False), {})
                        elif req == "setattr_x":
                            r = proxy._pyroInvoke("__setattr__", (name, "NEWVALUE", False), {})
                        elif req == "call_kw":         # hostile keyword arguments
                            r = proxy._pyroInvoke(name, (), {"only_exposed": False})
                        else:
                            r = proxy._pyroInvoke("__setattr__", (name, "NEWVALUE"), None)
                        outcome = ("ok", r)
                    except errors.CommunicationError as x:
                        outcome = ("comm", x)
                    except Exception as x:
                        outcome = ("exc", x)
                    case = (spec, name, req)
                    ran = [e for e in log if e[0] != "ctl"]
                    is_target = isinstance(name, str) and name == mname
                    namekind = "member" if is_target else ("ctl" if name == "ctl" else ("nonstring" if not isinstance(name, str) else ("dotted" if "." in name else "other")))
                    # (a) code ran => the named member is exposed and non-private, and it is that member
                    if name == "ctl":
                        pass
                    elif ran:
                        labels = sorted({e[0] + "." + e[2] for e in ran})
                        if kind == "func_attr" and is_target and not model_private(mname):
                            st.outcomes["unjudged:exposed-function-held-in-attribute-called"] = st.outcomes.get("unjudged:exposed-function-held-in-attribute-called", 0) + 1
                        elif not (is_target and exposed):
                            V("unexposed-code-ran|%s|%s|%s|%s|%s" % (kind, fexp, req if req.startswith(("getattr", "setattr")) else "call-path", namekind, ",".join(labels)),
                              "request %s(%r) ran %r although the specification does not expose it" % (req, name, ran), case)
                        elif len(ran) > 1:
                            V("member-ran-more-than-once|%s|%s" % (kind, req), "%r" % ran, case)
                    # (b) not allowed => refused and no effect
                    allowed_here = is_target and exposed
                    after = snapshot(obj, cls.__mro__[:2])
                    if not allowed_here and name != "ctl":
                        if after != before:
                            V("refused-request-changed-object|%s|%s|%s" % (kind, req, namekind), "before %s after %s" % (show(before, 200), show(after, 200)), case)
                        sent_oneway = req == "oneway" or (req in ("call", "call_kw") and isinstance(name, str) and name in proxy._pyroOneway)    # the client adds the flag itself
                        if not sent_oneway and outcome[0] == "ok" and not (kind == "func_attr" and is_target):
                            V("request-not-refused|%s|%s|%s|%s" % (kind, fexp, req, namekind), "request %s(%r) returned %s" % (req, name, show(outcome[1])), case)
                    if req == "oneway":
                        got_bytes = (proxy._pyroConnection.sock.bytes_in if proxy._pyroConnection else 0) - inbuf_before
                        if got_bytes:
                            V("oneway-request-got-a-reply|%s" % namekind, "%d reply bytes" % got_bytes, case)
                    if outcome[0] == "comm":
                        # the connection was dropped without any reply
                        if allowed_here or name == "ctl":
                            V("allowed-request-dropped-connection|%s|%s" % (kind, req), "%r" % outcome[1], case)
                        elif not sent_oneway and isinstance(outcome[1], (errors.ConnectionClosedError, errors.TimeoutError)):
                            # a refusal is an error *reply* (only a oneway request gets none)
                            V("refused-without-error-reply|%s|%s" % (req, namekind), "request %s(%r) got no reply: %r" % (req, name, outcome[1]), case)
                    # (d) served => advertised
                    if outcome[0] == "ok" and req in ("call", "batch") and isinstance(name, str) and "error" not in got_md and name not in got_md["methods"] and not (kind == "func_attr" and is_target):
                        V("served-but-not-advertised|method|%s|%s" % (kind, namekind), "call of %r succeeded, metadata %r" % (name, got_md), case)
                    if outcome[0] == "ok" and req.startswith(("getattr", "setattr")) and isinstance(name, str) and "error" not in got_md and name not in got_md["attrs"]:
                        V("served-but-not-advertised|attr|%s|%s" % (kind, namekind), "%s of %r succeeded, metadata %r" % (req, name, got_md), case)
                    # (d') advertised => served: a name in the advertised method list is not refused as unexposed/private
                    if req in ("call", "batch") and outcome[0] == "exc" and isinstance(name, str) and "error" not in got_md and name in got_md["methods"] \
                            and isinstance(outcome[1], AttributeError) and not log:
                        V("advertised-but-refused|method|%s|%s" % (kind, namekind), "%s of %r refused with %r, metadata %r" % (req, name, outcome[1], got_md), case)
                    # (e) exposed members are actually served by the matching request kind
                    if allowed_here and outcome[0] != "ok":
                        fits = (kind in ("method", "static", "classm") and req in ("call", "batch")) or (kind in ("prop_ro", "prop_rw") and req in ("getattr", "getattr_x")) or (kind in ("prop_rw", "prop_wo") and req in ("setattr", "setattr_x"))
                        if fits:
                            V("exposed-member-refused|%s|%s|%s|%s" % (kind, where, exp, req), "%r" % (outcome[1],), case)
                    oc = "%s:%s:%s:%s" % (kind, exp, req, outcome[0] if not ran else outcome[0] + "+ran")
                    st.outcomes[oc] = st.outcomes.get(oc, 0) + 1
            proxy._pyroRelease()
            dproxy._pyroRelease()
            st.states.add(spec)
            if len(st.samples) < 2:
                st.samples.append({"shape": list(spec), "names": len(requested_names(spec)), "request_kinds": REQ, "metadata": {k: sorted(v) for k, v in got_md.items()} if "error" not in got_md else got_md})
        if w.net.pump_errors:
            V("daemon-loop-error", "%r" % w.net.pump_errors[:2], ((),))
    finally:
        w.close()
        gc.enable()
        gc.collect()
    return st


# ------------------------------------------------------------------------------------------------------------
# the advertised member list under interruption: (1) inspection of a class fails half way (a class-level descriptor that raises
# the first k times it is read), (2) two threads inspect a not yet inspected class at the same time (engine T, every schedule)
def member_class(server, flaky_name=None, failures=0):
    state = {"left": failures}

    class Flaky(object):
        def __get__(self, inst, owner):
            if state["left"] > 0:
                state["left"] -= 1
                raise RuntimeError("descriptor not ready")
            return 5
    ns = {}
    for n in ("b", "m", "y"):
        def f(self):
            return 1
        f.__name__ = n
        ns[n] = server.expose(f)

    def ow(self):
        return None
    ns["ow"] = server.expose(server.oneway(ow))

    def hidden(self):
        return 2
    ns["hidden"] = hidden
    ns["p"] = server.expose(property(lambda self: 3))
    if flaky_name:
        ns[flaky_name] = Flaky()
    want = {"methods": {"b", "m", "y", "ow"}, "oneway": {"ow"}, "attrs": {"p"}}
    return type("Members", (object,), ns), want, state


def run_flaky(_unit):
    from vf.syncworld import SyncWorld
    from Pyro5 import client, server, core
    st = Stats()
    w = SyncWorld(SERIALIZER="serpent")
    try:
        d = w.daemon()
        for flaky_name in ("a_flaky", "c_flaky", "n_flaky", "zz_flaky"):
            for failures in (1, 2):
                for asks in (2, 3, 4):
                    cls, want, state = member_class(server, flaky_name, failures)
                    obj = cls()
                    d.register(obj, "members", force=True)
                    dproxy = client.Proxy("PYRO:%s@h:1" % core.DAEMON_NAME)
                    hist = []
                    for i in range(asks):
                        st.executions += 1
                        st.points += 1
                        pending = state["left"] > 0
                        try:
                            md = dproxy._pyroInvoke("get_metadata", ["members"], {})
                            got = {k: set(md[k]) for k in ("methods", "attrs", "oneway")}
                            hist.append(got)
                            if got != want:
                                st.violations.append({"fingerprint": "C02|metadata-wrong-after-failed-inspection|%s" % ("while-failing" if pending else "after"),
                                                      "what": "ask %d of the member list of a class whose inspection failed %d time(s) at %r: advertised %r, served set is %r (history %r)"
                                                              % (i, failures, flaky_name, got, want, hist), "replay": {"flaky": [flaky_name, failures, asks]}})
                        except Exception as x:
                            hist.append(type(x).__name__)
                            if not pending:
                                st.violations.append({"fingerprint": "C02|metadata-error-after-failed-inspection", "what": "%r (history %r)" % (x, hist), "replay": {"flaky": [flaky_name, failures, asks]}})
                    dproxy._pyroRelease()
                    st.states.add(("flaky", flaky_name, failures, asks))
                    oc = "flaky:%s" % (hist,)
                    st.outcomes[oc] = st.outcomes.get(oc, 0) + 1
    finally:
        w.close()
    return st


def make_sched_run(cfg):
    from vf import sched as S
    from vf.common import install_shims
    from vf.explore import HarnessError
    install_shims()
    from Pyro5 import server
    watch = S.watch_functions(server._get_exposed_members, server._reset_exposed_members, server.DaemonObject.get_metadata, follow=True)

    def run_fn(chooser):
        cls, want, _ = member_class(server)
        objs = [cls() for _ in range(cfg["threads"])]
        sch = S.Scheduler(chooser, watch=watch)
        sch.install()
        got = {}
        violations = []
        try:
            def body(i):
                def f():
                    r = server._get_exposed_members(objs[i])
                    got[i] = {k: set(r[k]) for k in ("methods", "attrs", "oneway")}     # what would be serialised into the answer at this moment
                return f
            for i in range(cfg["threads"]):
                sch.spawn(body(i), "inspect-%d" % i)
            outcome = sch.run()
            if outcome != "quiescent":
                raise HarnessError("member inspection schedule ended with %s" % outcome)
            for i in range(cfg["threads"]):
                if got.get(i) != want:
                    violations.append({"fingerprint": "C02|concurrent-inspection-advertises-wrong-member-list", "what": "thread %d was told %r, the class serves %r" % (i, got.get(i), want),
                                       "replay": {"sched_cfg": cfg}})
            return {"outcome": repr((outcome, sorted((i, sorted(g["methods"])) for i, g in got.items()))), "violations": violations, "sample": {"cfg": cfg, "points": len(chooser.points)}}
        finally:
            sch.teardown()
            server._reset_exposed_members(cls)
    return run_fn


def sched_task(unit):
    from vf.common import run_unit
    return run_unit(make_sched_run, unit)


def chunks(lst, n):
    for i in range(0, len(lst), n):
        yield lst[i:i + n]


# the reserved dunder names as the pinned tree lists them (a later tree may reserve more, never fewer)
FROZEN_RESERVED = ['__bool__', '__call__', '__class__', '__cmp__', '__coerce__', '__copy__', '__deepcopy__', '__del__', '__delattr__', '__dir__', '__enter__', '__eq__',
                   '__exit__', '__format__', '__ge__', '__getattr__', '__getattribute__', '__getinitargs__', '__getnewargs__', '__getstate__', '__gt__', '__hasattr__',
                   '__hash__', '__init__', '__init_subclass__', '__instancecheck__', '__le__', '__lt__', '__module__', '__ne__', '__new__', '__nonzero__', '__reduce__',
                   '__reduce_ex__', '__repr__', '__setattr__', '__setstate__', '__sizeof__', '__str__', '__subclasscheck__', '__subclasshook__', '__weakref__']
# those of them a class can define as ordinary logging methods without Python itself calling them during the check
DEFINABLE = ['__init_subclass__', '__copy__', '__deepcopy__', '__getinitargs__', '__getnewargs__', '__cmp__', '__coerce__', '__nonzero__', '__hasattr__', '__enter__',
             '__exit__', '__format__', '__subclasshook__', '__call__', '__reduce_ex__', '__sizeof__']


def run_reserved(unit):
    """a class exposed as a whole that defines reserved dunder names itself (a plugin base class with __init_subclass__, a context manager,
    ...): none of them is served or advertised, whichever request kind names it"""
    from vf.syncworld import SyncWorld
    from Pyro5 import client, server, errors, protocol, core
    st = Stats()
    seen = set()

    def V(fp, what, case):
        fp = "C02|" + fp
        if fp not in seen:
            seen.add(fp)
            st.violations.append({"fingerprint": fp, "what": "%s [case=%s]" % (what, show(case, 200)), "replay": {"reserved": True}})
    for n in FROZEN_RESERVED:
        st.points += 1
        if not server.is_private_attribute(n):
            V("reserved-dunder-no-longer-private|%s" % n, "is_private_attribute(%r) is False" % n, (n,))
    log = []
    ns = {}
    for n in DEFINABLE:
        def mk(n):
            def f(*a, **k):
                log.append(n)
                return "ran-" + n
            f.__name__ = n
            return f
        ns[n] = classmethod(mk(n)) if n in ("__init_subclass__", "__subclasshook__") else mk(n)
    ns["ctl"] = lambda self: "ctl"
    gc.disable()
    w = SyncWorld(SERIALIZER="serpent")
    try:
        cls = server.expose(type("Plugin", (object,), ns))
        d = w.daemon()
        d.register(cls(), "target")
        del log[:]
        dproxy = client.Proxy("PYRO:%s@h:1" % core.DAEMON_NAME)
        md = dproxy._pyroInvoke("get_metadata", ["target"], {})
        adv = set(md["methods"]) | set(md["attrs"]) | set(md["oneway"])
        if adv != {"ctl"}:
            V("metadata-advertises-unservable|reserved-dunder|%s" % sorted(adv - {"ctl"})[:1], "advertised %r" % sorted(adv), ("Plugin",))
        proxy = client.Proxy("PYRO:target@h:1")
        for n in FROZEN_RESERVED:
            for req in ("call", "call_kw", "oneway", "batch", "getattr", "setattr"):
                st.executions += 1
                del log[:]
                if proxy._pyroConnection is None:
                    proxy._pyroBind()
                try:
                    if req == "call":
                        r = proxy._pyroInvoke(n, (), {})
                    elif req == "call_kw":
                        r = proxy._pyroInvoke(n, (), {"x": 1})
                    elif req == "oneway":
                        r = proxy._pyroInvoke(n, (), {}, flags=protocol.FLAGS_ONEWAY)
                    elif req == "batch":
                        r = proxy._pyroInvokeBatch([(n, (), {})])
                        if r and isinstance(r[0], core._ExceptionWrapper):
                            raise r[0].exception
                    elif req == "getattr":
                        r = proxy._pyroInvoke("__getattr__", (n,), None)
                    else:
                        r = proxy._pyroInvoke("__setattr__", (n, "NEW"), None)
                    outcome = ("ok", r)
                except Exception as x:
                    outcome = ("exc", x)
                if log:
                    V("unexposed-code-ran|reserved-dunder|%s|%s" % (n, req), "request %s(%r) ran %r" % (req, n, log[:3]), (n, req))
                elif outcome[0] == "ok" and req != "oneway":
                    V("request-not-refused|reserved-dunder|%s|%s" % (n, req), "request %s(%r) returned %s" % (req, n, show(outcome[1])), (n, req))
        st.states.add("reserved-dunders")
        st.outcomes["reserved:refused"] = 1
    finally:
        w.close()
        gc.enable()
        gc.collect()
    return st


def run(ctx):
    sp = specs(ctx.quick)
    total = Stats()
    for st in ctx.pmap(run_reserved, [0]):
        total.merge(st)
    for st in ctx.pmap(run_config, [(c, ctx.quick) for c in chunks(sp, max(1, len(sp) // 64))]):
        total.merge(st)
    for st in ctx.pmap(run_flaky, [0]):
        total.merge(st)
    from vf.common import explore_parallel
    scfgs = [{"threads": 2, "p": 1 if ctx.quick else 2, "horizon": 3000}] + ([] if ctx.quick else [{"threads": 3, "p": 1, "horizon": 4000}])
    sstats = explore_parallel(ctx, sched_task, scfgs, lambda c: c["p"], lambda c: 10 ** 6)
    total.violations.extend(sstats.violations)
    total.extra["inspection_schedules_explored"] = sstats.executions
    total.extra["inspection_schedule_points"] = sstats.points
    total.extra["inspection_schedule_outcomes"] = len(sstats.outcomes)
    cov = coverage_from_stats(
        total,
        rule="generated class shapes: member kind {instance/static/class method, read-only/read-write/setter-only property, class attribute, instance attribute, attribute "
             "holding an instance (plain / callable) or the class of an exposed helper, attribute holding an exposed function} x defined in {base, registered subclass, "
             "overridden} x exposure {none, on the member, on the defining class, on the other class only} x oneway x member name {public, _private, __dunder__, reserved "
             "dunder}: %d shapes built with the real decorators; per shape ~45 requested names (member name and variants, reserved dunders, dotted paths, unicode "
             "look-alike, empty, non-strings) x {call, oneway, batch, __getattr__, __setattr__} sent past the client-side filter; oracle from the shape specification: "
             "side-effect log, object snapshot, reply kind, advertised metadata (advertised <=> served); plus the member list of a class whose inspection fails 1-2 times half way "
             "(4 positions x 2-4 asks), and every schedule (line granularity in _get_exposed_members, preemption bound %d) of 2-3 threads inspecting a fresh class at once: each is told the "
             "served set; distinct = distinct shapes" % (len(sp), 1 if ctx.quick else 2),
        nontrivial=len(total.states))
    return {"violations": total.violations, "coverage": cov,
            "assumptions": ["an exposed free function stored in an attribute is explored but not judged (the statement does not say whether that 'denotes an exposed method')",
                            "serpent serializer only: exposure gates are serializer independent"]}


def replay(ctx, payload):
    if payload.get("replay", {}).get("reserved"):
        st = run_reserved(0)
        return {"violations": [v for v in st.violations if v["fingerprint"] == payload["fingerprint"]]}
    if "sched_cfg" in payload["replay"]:
        from vf.explore import Chooser
        res = make_sched_run(payload["replay"]["sched_cfg"])(Chooser([tuple(c) for c in payload["choices"]]))
        return {"violations": res["violations"]}
    if "flaky" in payload["replay"]:
        st = run_flaky(0)
        return {"violations": [v for v in st.violations if v["fingerprint"] == payload["fingerprint"]]}
    st = run_config(([tuple(payload["replay"]["spec"])], False))
    return {"violations": [v for v in st.violations if v["fingerprint"] == payload["fingerprint"]], "all": sorted(v["fingerprint"] for v in st.violations)}
