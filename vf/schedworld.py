"""Whole-system world under the controlled scheduler: real Daemon (thread-pool or multiplex transport server, real requestLoop),
real Proxy objects, in-memory sockets; every actor on its own OS thread, one running at a time (engines N + T)."""
import gc

from . import sched as S
from .common import install_shims, reset_worker_counter
from .memnet import MemNet
from .explore import HarnessError


class SchedWorld:
    _frozen = False

    def __init__(self, chooser, servertype="multiplex", watch=None, max_idle_wakes=12, allow_ticks=True, **cfg):
        from Pyro5 import config, svr_threads
        install_shims()
        if not SchedWorld._frozen:
            SchedWorld._frozen = True
            gc.collect()
            gc.freeze()      # keep the permanent heap (modules, harness) out of the per-execution collections
        config.reset(False)
        config.SERVERTYPE = servertype
        config.THREADPOOL_SIZE_MIN = 1
        config.THREADPOOL_SIZE = 4
        for k, v in cfg.items():
            setattr(config, k, v)
        self.config = config
        reset_worker_counter()
        self.net = MemNet()
        self.net.install()
        self._disc_lock = svr_threads._client_disconnect_lock
        svr_threads._client_disconnect_lock = S.CoopLock(False, "client_disconnect")
        self.sch = S.Scheduler(chooser, watch=watch, max_idle_wakes=max_idle_wakes, allow_ticks=allow_ticks)
        self.sch.install()
        self.daemons = []
        self.loop_errors = []
        self._port = 0
        import threading
        self._excepthook = threading.excepthook
        threading.excepthook = lambda args: None

    def daemon(self, cls=None, **kw):
        from Pyro5 import server
        cls = cls or server.Daemon
        self._port += 1
        d = cls(host="h", port=self._port, **kw)
        self.daemons.append(d)
        return d

    def serve(self, d, name="daemon-loop"):
        def loop():
            try:
                d.requestLoop()
                self.loop_errors.append((name, "returned"))
            except S.AbortExecution:
                raise
            except BaseException as x:
                self.loop_errors.append((name, x))
        return self.sch.spawn(loop, name, role="servant")

    def client(self, fn, name):
        return self.sch.spawn(fn, name, role="driver")

    def run(self):
        return self.sch.run()

    def loop_alive(self, name="daemon-loop"):
        for t in self.sch.threads:
            if t.name == name:
                return t.status != S.DONE
        return False

    def close(self):
        from Pyro5 import svr_threads
        import threading
        try:
            self.sch.teardown()
        finally:
            for d in self.daemons:
                try:
                    d.close()
                except Exception:
                    pass
            self.daemons = []
            svr_threads._client_disconnect_lock = self._disc_lock
            threading.excepthook = self._excepthook
            self.net.uninstall()
            self.config.reset(False)
            # cyclic garbage (daemons, proxies) is only collected between executions, with no scheduler installed;
            # (the long-lived heap was frozen in the constructor, so this only scans what the execution allocated)
            gc.collect()
