"""
Choice-tree explorer: stateless, replay-by-prefix, deviation-bounded (DESIGN.md 2.1).

An *execution* is one run of ``run_fn(chooser)``.  Every nondeterministic decision of the
harness is taken through ``chooser.choose(kind, n, costs)``.  Alternative 0 is the default
answer and always free.  Every other alternative carries a cost pair (p, r):
p = preemption / fault / timer deviation, r = reordering among equally free runnable threads.

The explorer enumerates *all* choice sequences whose summed cost stays within (p_bound, r_bound).
Replaying a prefix must reproduce the same (kind, n) at every point; anything else is a
HarnessError (never a violation).
"""
import hashlib
import json


class HarnessError(Exception):
    """The harness itself misbehaved (replay divergence, leaked thread, ...). Exit code 2."""


class Point:
    __slots__ = ("kind", "n", "costs", "chosen")

    def __init__(self, kind, n, costs, chosen):
        self.kind = kind
        self.n = n
        self.costs = costs
        self.chosen = chosen


class Chooser:
    """Replays ``prefix`` (list of (choice, kind, n)), then answers 0."""

    def __init__(self, prefix=()):
        self.prefix = list(prefix)
        self.points = []
        self.horizon = 100000
        self.horizon_hit = False

    def choose(self, kind, n, costs=None):
        """costs: list of (p, r) per alternative (index 0 ignored) or None => every alternative costs p=1."""
        if n <= 1:
            return 0
        i = len(self.points)
        if i >= self.horizon:
            self.horizon_hit = True
            self.points.append(Point(kind, n, costs, 0))
            return 0
        if i < len(self.prefix):
            c, k, pn = self.prefix[i]
            if k != kind or pn != n:
                raise HarnessError("replay divergence at point %d: recorded (%s,%d) but now (%s,%d)" % (i, k, pn, kind, n))
            chosen = c
        else:
            chosen = 0
        self.points.append(Point(kind, n, costs, chosen))
        return chosen

    def choices(self):
        return [(p.chosen, p.kind, p.n) for p in self.points]

    def spent(self, upto=None):
        p = r = 0
        for pt in self.points[:upto]:
            if pt.chosen:
                cp, cr = cost_of(pt, pt.chosen)
                p += cp
                r += cr
        return p, r


def cost_of(pt, alt):
    if alt == 0:
        return (0, 0)
    if pt.costs is None:
        return (1, 0)
    return pt.costs[alt]


def children(chooser, p_bound, r_bound, start):
    """All one-step extensions of the executed choice sequence that deviate at a point >= start."""
    out = []
    p = r = 0
    pts = chooser.points
    # cost spent before 'start'
    for pt in pts[:start]:
        cp, cr = cost_of(pt, pt.chosen)
        p += cp
        r += cr
    for i in range(start, len(pts)):
        pt = pts[i]
        # after 'start' the run chose 0 everywhere (default), which is free
        for alt in range(1, pt.n):
            cp, cr = cost_of(pt, alt)
            if p + cp <= p_bound and r + cr <= r_bound:
                pref = [(q.chosen, q.kind, q.n) for q in pts[:i]] + [(alt, pt.kind, pt.n)]
                out.append(pref)
    return out


class Stats:
    def __init__(self):
        self.executions = 0
        self.points = 0
        self.max_points = 0
        self.horizon_hits = 0
        self.outcomes = {}
        self.states = set()
        self.violations = []
        self.samples = []
        self.extra = {}

    def merge(self, other):
        self.executions += other.executions
        self.points += other.points
        self.max_points = max(self.max_points, other.max_points)
        self.horizon_hits += other.horizon_hits
        for k, v in other.outcomes.items():
            self.outcomes[k] = self.outcomes.get(k, 0) + v
        self.states |= other.states
        self.violations.extend(other.violations)
        for s in other.samples:
            if len(self.samples) < 6:
                self.samples.append(s)
        for k, v in other.extra.items():
            if isinstance(v, (int, float)):
                self.extra[k] = self.extra.get(k, 0) + v
            elif isinstance(v, set):
                self.extra[k] = self.extra.get(k, set()) | v
            elif isinstance(v, dict):
                d = self.extra.setdefault(k, {})
                for kk, vv in v.items():
                    d[kk] = d.get(kk, 0) + vv
            else:
                self.extra[k] = v


def digest(obj):
    return hashlib.sha1(json.dumps(obj, sort_keys=True, default=repr).encode()).hexdigest()[:16]


def explore_subtree(run_fn, prefix, p_bound, r_bound, stats, max_violations=20, horizon=4000):
    """
    Depth-first exploration of every execution whose choice sequence extends ``prefix``
    (the prefix's own default continuation included).
    run_fn(chooser) -> dict(outcome=<hashable/str>, violations=[{fingerprint, what}], states=[...], sample=<json>)
    """
    stack = [list(prefix)]
    while stack:
        pref = stack.pop()
        ch = Chooser(pref)
        ch.horizon = horizon
        res = run_fn(ch)
        if len(ch.points) < len(pref):
            raise HarnessError("replay ended before the prefix was consumed (%d < %d): prefix=%r result=%r" % (len(ch.points), len(pref), [c for c, _, _ in pref], str(res.get("outcome"))[:300]))
        stats.executions += 1
        stats.points += len(ch.points)
        stats.max_points = max(stats.max_points, len(ch.points))
        if ch.horizon_hit:
            stats.horizon_hits += 1
        oc = res.get("outcome")
        ock = oc if isinstance(oc, str) else digest(oc)
        stats.outcomes[ock] = stats.outcomes.get(ock, 0) + 1
        for s in res.get("states", ()):
            stats.states.add(s)
        if res.get("sample") is not None and len(stats.samples) < 3:
            stats.samples.append(res["sample"])
        for v in res.get("violations", ()):
            v = dict(v)
            v.setdefault("choices", ch.choices())
            if len(stats.violations) < max_violations or not any(x["fingerprint"] == v["fingerprint"] for x in stats.violations):
                stats.violations.append(v)
        if res.get("fatal"):
            stats.extra["subtrees_abandoned_after_fatal_outcome"] = stats.extra.get("subtrees_abandoned_after_fatal_outcome", 0) + 1
            break      # e.g. a spinning thread: every further schedule of this unit would cost a wall-clock timeout
        for c in children(ch, p_bound, r_bound, len(pref)):
            stack.append(c)
    return stats


def root_and_children(run_fn, p_bound, r_bound, stats, horizon=4000):
    """Runs the all-default execution and returns the list of one-deviation prefixes (work units)."""
    ch = Chooser([])
    ch.horizon = horizon
    res = run_fn(ch)
    stats.executions += 1
    stats.points += len(ch.points)
    stats.max_points = max(stats.max_points, len(ch.points))
    oc = res.get("outcome")
    ock = oc if isinstance(oc, str) else digest(oc)
    stats.outcomes[ock] = stats.outcomes.get(ock, 0) + 1
    for s in res.get("states", ()):
        stats.states.add(s)
    if res.get("sample") is not None:
        stats.samples.append(res["sample"])
    for v in res.get("violations", ()):
        v = dict(v)
        v.setdefault("choices", ch.choices())
        stats.violations.append(v)
    return children(ch, p_bound, r_bound, 0)
