"""
Engine T: controlled scheduler for real threads (DESIGN.md 2.4).

One OS thread runs at a time (baton = per-thread semaphore).  Scheduling points are
  (a) 'line' trace events inside watched code objects,
  (b) the cooperative replacements of Lock/RLock/Event/sleep/join and the in-memory sockets.
Every decision is asked from an explore.Chooser, so an execution is a pure function of the
choice sequence.
"""
import gc
import sys
import threading
import time as _real_time
import types
import uuid as _real_uuid

from .explore import HarnessError

_orig_start = threading.Thread.start
_orig_join = threading.Thread.join

RUNNABLE, BLOCKED, DONE = "runnable", "blocked", "done"


class AbortExecution(BaseException):
    """Raised inside managed threads to unwind them at the end of an execution."""


class TState:
    def __init__(self, idx, thread, name, role):
        self.idx = idx
        self.thread = thread
        self.name = name
        self.role = role          # 'driver' (must finish) or 'servant'
        self.sem = threading.Semaphore(0)
        self.status = RUNNABLE
        self.pred = None
        self.tmode = None         # None | 'idle' | 'tick'
        self.timed_out = False
        self.blocked_on = ""
        self.error = None

    def __repr__(self):
        return "<T%d %s %s %s>" % (self.idx, self.name, self.status, self.blocked_on)


class Scheduler:
    current = None   # the installed scheduler (one per process at a time)

    def __init__(self, chooser, watch=None, servant_names=("Pyro-Worker", "housekeeper", "oneway-call"),
                 allow_ticks=True, max_idle_wakes=6):
        self.chooser = chooser
        self.watch = watch            # predicate(code) -> bool, or None
        self.threads = []
        self.cur = None
        self.aborting = False
        self.finished = threading.Event()
        self.outcome = None           # 'quiescent' | 'deadlock' | 'horizon'
        self.clock = 1000.0
        self.servant_names = servant_names
        self.allow_ticks = allow_ticks
        self.idle_wakes = 0
        self.max_idle_wakes = max_idle_wakes
        self.uuid_counter = 0
        self.trace_log = None         # optional list of (thread idx, kind)
        self.errors = []              # uncaught exceptions of managed threads: (name, exc)
        self.n_points = 0
        self._by_ident = {}
        self.on_point = None          # optional callback(sched) evaluated at every scheduling point (invariants)
        self.hang_timeout = 60.0      # wall-clock seconds without the execution ending: the running thread makes no progress
        self.hung_thread = None
        self.max_steps = 200000
        self.fail_starts = ()         # 1-based indices of Thread.start() calls (library threads included) that fail with RuntimeError
        self.n_starts = 0

    # ---------------------------------------------------------------- install / uninstall
    def install(self):
        if Scheduler.current is not None:
            raise HarnessError("a scheduler is already installed")
        Scheduler.current = self
        threading.Thread.start = _patched_start
        threading.Thread.join = _patched_join

    def uninstall(self):
        threading.Thread.start = _orig_start
        threading.Thread.join = _orig_join
        Scheduler.current = None

    # ---------------------------------------------------------------- thread management
    def me(self):
        return self._by_ident.get(threading.get_ident())

    def register(self, thread, role=None):
        name = thread.name
        if role is None:
            role = "servant" if any(name.startswith(s) for s in self.servant_names) else "driver"
        st = TState(len(self.threads), thread, name, role)
        self.threads.append(st)
        return st

    def spawn(self, fn, name, role="driver"):
        """create a managed thread from the controller (before run) or from a managed thread"""
        t = threading.Thread(target=fn, name=name)
        t.daemon = True
        t._vf_role = role
        t.start()
        return t

    def _bootstrap(self, st, orig_run):
        def run_wrapper():
            self._by_ident[threading.get_ident()] = st
            st.sem.acquire()
            try:
                if self.aborting:
                    return
                if self.watch is not None:
                    sys.settrace(self._trace)
                try:
                    orig_run()
                except AbortExecution:
                    pass
                except BaseException as x:   # uncaught exception in a managed thread
                    st.error = x
                    if not self.aborting:
                        self.errors.append((st.name, x))
            finally:
                sys.settrace(None)
                st.status = DONE
                if not self.aborting:
                    try:
                        self._switch_away(st, "exit")
                    except AbortExecution:
                        pass
        return run_wrapper

    # ---------------------------------------------------------------- tracing
    def _trace(self, frame, event, arg):
        if event != "call" or self.aborting:
            return None
        code = frame.f_code
        w = self.watch
        if w(code):
            return self._local_trace
        if getattr(w, "follow", False) and code.co_filename in w.files and code not in w.exclude:
            # a function of the same source file called from watched code is watched as well, so that moving a racy
            # sequence into a helper does not hide it from the scheduler
            back = frame.f_back
            if back is not None and back.f_trace is not None:
                return self._local_trace
        return None

    def _local_trace(self, frame, event, arg):
        if event == "line" and not self.aborting:
            self.point("line")
        return self._local_trace

    # ---------------------------------------------------------------- the core
    def _enabled(self, st):
        if st.status == RUNNABLE:
            return True
        if st.status == BLOCKED and st.pred is not None and st.pred():
            return True
        return False

    def point(self, kind="op"):
        """scheduling point: the current thread could be preempted here"""
        me = self.me()
        if me is None:
            return   # controller thread or foreign thread: not scheduled
        if self.aborting:
            raise AbortExecution()
        if me is not self.cur:
            raise HarnessError("thread %r runs without holding the baton (cur=%r)" % (me, self.cur))
        self._pick_and_switch(me, kind)

    def block(self, pred, tmode=None, what=""):
        """block the calling thread until pred() holds (or a timeout of the given mode fires).
        returns True if woken by pred, False if by timeout"""
        me = self.me()
        if me is None:
            raise HarnessError("unmanaged thread would block on %s" % what)
        if self.aborting:
            raise AbortExecution()
        if pred():
            return True       # nothing to wait for
        me.status = BLOCKED
        me.pred = pred
        me.tmode = tmode
        me.timed_out = False
        me.blocked_on = what
        self._pick_and_switch(me, "block")
        # we have the baton again
        me.status = RUNNABLE
        me.pred = None
        me.tmode = None
        me.blocked_on = ""
        return not me.timed_out

    def _switch_away(self, me, kind):
        self._pick_and_switch(me, kind)

    def _pick_and_switch(self, me, kind):
        self.n_points += 1
        if self.n_points > self.max_steps:
            self._end("horizon", me)
            raise AbortExecution()
        if self.on_point is not None:
            self.on_point(self)
        ths = self.threads
        me_enabled = me.status == RUNNABLE
        cands = []
        if me_enabled:
            cands.append(me)
        for t in ths:
            if t is not me and self._enabled(t):
                cands.append(t)
        ticks = []
        if self.allow_ticks:
            for t in ths:
                if t.status == BLOCKED and t.tmode == "tick" and t is not me and not (t.pred is not None and t.pred()):
                    ticks.append(t)
        if not cands:
            # nobody can run: idle timeouts, then quiescence/deadlock
            idle = [t for t in ths if t.status == BLOCKED and t.tmode == "idle"]
            drivers_left = [t for t in ths if t.role == "driver" and t.status != DONE]
            if idle and self.idle_wakes < self.max_idle_wakes:
                self.idle_wakes += 1
                costs = [(0, 0)] + [(0, 1)] * (len(idle) - 1)
                i = self.chooser.choose("idle-timeout", len(idle), costs)
                t = idle[i]
                t.timed_out = True
                self._handoff(me, t)
                return
            if ticks and drivers_left:
                # only periodic timers can make progress while a driver still waits: fire one for free
                costs = [(0, 0)] + [(0, 1)] * (len(ticks) - 1)
                i = self.chooser.choose("forced-tick", len(ticks), costs)
                self.idle_wakes += 1
                if self.idle_wakes > self.max_idle_wakes:
                    self._end("deadlock", me)
                    raise AbortExecution()
                t = ticks[i]
                t.timed_out = True
                self._handoff(me, t)
                return
            self._end("deadlock" if drivers_left else "quiescent", me)
            raise AbortExecution()
        n = len(cands) + len(ticks)
        if n == 1:
            chosen = cands[0]
        else:
            if me_enabled:
                costs = [(0, 0)] + [(1, 0)] * (n - 1)
            else:
                costs = [(0, 0)] + [(0, 1)] * (len(cands) - 1) + [(1, 0)] * len(ticks)
            if self.chooser.horizon_hit:
                self._end("horizon", me)
                raise AbortExecution()
            i = self.chooser.choose(kind, n, costs)
            if i < len(cands):
                chosen = cands[i]
            else:
                chosen = ticks[i - len(cands)]
                chosen.timed_out = True
        if self.trace_log is not None:
            self.trace_log.append((me.idx, kind, chosen.idx))
        if chosen is me:
            return
        self._handoff(me, chosen)

    def _handoff(self, me, chosen):
        self.cur = chosen
        if chosen is me:
            return
        chosen.sem.release()
        if me.status == DONE:
            return
        me.sem.acquire()
        if self.aborting:
            raise AbortExecution()

    def _end(self, outcome, me=None):
        """ends the execution; the calling thread parks (frozen world for the oracle) until teardown"""
        if self.outcome is None:
            self.outcome = outcome
        self.finished.set()
        if me is not None and me.status != DONE:
            me.sem.acquire()

    # ---------------------------------------------------------------- controller side
    def run(self, timeout=None):
        """called by the controller thread after the initial drivers were spawned; returns the outcome"""
        if not self.threads:
            self.outcome = "quiescent"
            return self.outcome
        first = self.threads[0]
        self.cur = first
        gc.disable()
        first.sem.release()
        if not self.finished.wait(timeout or self.hang_timeout):
            self.outcome = "hang"
            self.hung_thread = self.cur
            import os
            import traceback
            frames = sys._current_frames()
            f = frames.get(self.cur.thread.ident) if self.cur is not None else None
            self.hang_stack = "".join(traceback.format_stack(f)[-6:]) if f is not None else ""
            if os.environ.get("VF_DEBUG"):
                print("HANG: cur=%r" % self.cur, file=sys.stderr)
                for t in self.threads:
                    print("  ", t, file=sys.stderr)
                    f = frames.get(t.thread.ident)
                    if f is not None:
                        print("".join(traceback.format_stack(f)[-14:]), file=sys.stderr)
        return self.outcome

    def teardown(self):
        """release and join every managed thread; must be called after the oracle looked at the state"""
        self.aborting = True
        for t in self.threads:
            t.sem.release()
        leaked = []
        for t in self.threads:
            _orig_join(t.thread, 5.0 if self.outcome != "hang" else 0.2)
            if t.thread.is_alive():
                # a thread that spins without ever reaching a scheduling point (only possible after a 'hang'): unwind it asynchronously
                import ctypes
                for _ in range(50):
                    ctypes.pythonapi.PyThreadState_SetAsyncExc(ctypes.c_ulong(t.thread.ident), ctypes.py_object(AbortExecution))
                    _orig_join(t.thread, 0.2)
                    if not t.thread.is_alive():
                        break
            if t.thread.is_alive():
                leaked.append(t)
        self.uninstall()
        gc.enable()
        if leaked:
            raise HarnessError("threads survived teardown: %r" % leaked)

    # ---------------------------------------------------------------- virtual time / ids
    def time(self):
        return self.clock

    def sleep(self, secs):
        me = self.me()
        self.clock += max(0.0, secs or 0.0)
        if me is not None:
            self.point("sleep")

    def uuid4(self):
        self.uuid_counter += 1
        return _real_uuid.UUID(int=(0x5eed << 96) | self.uuid_counter)


def _patched_start(thread):
    s = Scheduler.current
    if s is None or s.aborting:
        return _orig_start(thread)
    if s.fail_starts:
        s.n_starts += 1
        if s.n_starts in s.fail_starts:
            raise RuntimeError("can't start new thread")      # environment fault: the system refuses another thread
    st = s.register(thread, getattr(thread, "_vf_role", None))
    thread.run = s._bootstrap(st, thread.run)
    _orig_start(thread)
    if s.me() is not None:
        s.point("spawn")


def _patched_join(thread, timeout=None):
    s = Scheduler.current
    if s is None or s.aborting or s.me() is None:
        return _orig_join(thread, timeout)
    st = None
    for t in s.threads:
        if t.thread is thread:
            st = t
            break
    if st is None:
        return _orig_join(thread, timeout)
    s.point("join")
    if st.status == DONE:
        return
    s.block(lambda: st.status == DONE, tmode=("idle" if timeout is not None else None), what="join %s" % st.name)


# -------------------------------------------------------------------- cooperative primitives
class CoopLock:
    def __init__(self, reentrant=False, name="lock"):
        self.owner = None
        self.count = 0
        self.reentrant = reentrant
        self.name = name

    def _sched(self):
        s = Scheduler.current
        if s is None or s.aborting or s.me() is None:
            return None
        return s

    def acquire(self, blocking=True, timeout=-1):
        s = self._sched()
        if s is None:
            # inert mode (teardown / outside an execution): never block
            if Scheduler.current is None and not self.reentrant and self.count > 0 and self.owner == threading.get_ident():
                # synchronous world: a plain lock taken again by the thread that holds it would hang for ever
                raise RuntimeError("self-deadlock: thread acquires the non-reentrant lock %s it already holds" % self.name)
            self.owner = threading.get_ident()
            self.count += 1
            return True
        me = s.me()
        s.point("acquire")
        if self.owner is me and self.reentrant:
            self.count += 1
            return True
        if self.owner is not None:
            if not blocking:
                return False
            if self.owner is me:
                pass  # self-deadlock on a plain lock: falls through to block (=> deadlock detected)
            # a bounded wait may run out while the holder is merely slow: firing the timeout is a budgeted deviation ("tick")
            ok = s.block(lambda: self.owner is None, tmode=("tick" if timeout is not None and timeout >= 0 else None),
                         what="lock %s" % self.name)
            if not ok:
                return False
        self.owner = me
        self.count = 1
        return True

    def release(self):
        s = self._sched()
        if s is None:
            self.count = max(0, self.count - 1)
            if self.count == 0:
                self.owner = None
            return
        if self.owner is None or (self.reentrant and self.owner is not s.me()):
            raise RuntimeError("cannot release un-acquired lock" if self.reentrant else "release unlocked lock")
        self.count -= 1
        if self.count <= 0:
            self.owner = None
            self.count = 0

    def locked(self):
        return self.owner is not None

    def __enter__(self):
        self.acquire()
        return self

    def __exit__(self, *a):
        self.release()


class CoopEvent:
    def __init__(self, tmode_for_timeout="idle"):
        self.flag = False
        self.tmode_for_timeout = tmode_for_timeout

    def is_set(self):
        return self.flag

    isSet = is_set

    def set(self):
        self.flag = True
        s = Scheduler.current
        if s is not None and not s.aborting and s.me() is not None:
            s.point("event.set")

    def clear(self):
        self.flag = False

    def wait(self, timeout=None):
        s = Scheduler.current
        if s is None or s.me() is None:
            return self.flag
        if s.aborting:
            raise AbortExecution()
        s.point("event.wait")
        if self.flag:
            return True
        s.block(lambda: self.flag, tmode=(self.tmode_for_timeout if timeout is not None else None), what="event")
        return self.flag


class CoopSemaphore:
    def __init__(self, value=1, bounded=False):
        if value < 0:
            raise ValueError("semaphore initial value must be >= 0")
        self.value = value
        self.initial = value
        self.bounded = bounded

    def acquire(self, blocking=True, timeout=None):
        s = Scheduler.current
        if s is None or s.aborting or s.me() is None:
            if self.value > 0:
                self.value -= 1
            return True          # inert mode: never block
        s.point("sem.acquire")
        if self.value <= 0:
            if not blocking:
                return False
            ok = s.block(lambda: self.value > 0, tmode=("idle" if timeout is not None else None), what="semaphore")
            if not ok:
                return False
        self.value -= 1
        return True

    def release(self, n=1):
        if self.bounded and self.value + n > self.initial:
            raise ValueError("Semaphore released too many times")
        self.value += n
        s = Scheduler.current
        if s is not None and not s.aborting and s.me() is not None:
            s.point("sem.release")

    def __enter__(self):
        self.acquire()
        return self

    def __exit__(self, *a):
        self.release()


class CoopCondition:
    """threading.Condition on a cooperative lock: wait() releases the lock, parks until notified (or a timeout fires), re-acquires"""

    def __init__(self, lock=None):
        self._lock = lock if lock is not None else CoopLock(True)
        self._waiters = []      # tickets: one-element lists, [True] once notified
        self.acquire = self._lock.acquire
        self.release = self._lock.release

    def __enter__(self):
        return self._lock.__enter__()

    def __exit__(self, *a):
        return self._lock.__exit__(*a)

    def wait(self, timeout=None):
        s = Scheduler.current
        if s is None or s.aborting or s.me() is None:
            return True
        if self._lock.owner is not s.me():
            raise RuntimeError("cannot wait on un-acquired lock")
        ticket = [False]
        self._waiters.append(ticket)
        depth = self._lock.count
        self._lock.count = 0
        self._lock.owner = None
        s.point("cond.wait")
        ok = ticket[0] or s.block(lambda: ticket[0], tmode=("idle" if timeout is not None else None), what="condition")
        if ticket in self._waiters:
            self._waiters.remove(ticket)
        me = s.me()
        if self._lock.owner is not None:
            s.block(lambda: self._lock.owner is None, what="condition re-acquire")
        self._lock.owner = me
        self._lock.count = depth
        return bool(ok)

    def wait_for(self, predicate, timeout=None):
        result = predicate()
        tries = 0
        while not result:
            if not self.wait(timeout) and timeout is not None:
                return predicate()
            result = predicate()
            tries += 1
            if tries > 1000:
                raise HarnessError("condition predicate never becomes true")
        return result

    def notify(self, n=1):
        for ticket in self._waiters[:n]:
            ticket[0] = True
        del self._waiters[:n]
        s = Scheduler.current
        if s is not None and not s.aborting and s.me() is not None:
            s.point("cond.notify")

    def notify_all(self):
        self.notify(len(self._waiters))

    notifyAll = notify_all


class ThreadingShim(types.ModuleType):
    """stands in for the 'threading' global of a Pyro5 module"""

    def __init__(self, periodic_events=False):
        super().__init__("threading_shim")
        self._periodic = periodic_events

    def Lock(self):
        return CoopLock(False)

    def RLock(self):
        return CoopLock(True)

    def Event(self):
        return CoopEvent("tick" if self._periodic else "idle")

    def Condition(self, lock=None):
        return CoopCondition(lock)

    def Semaphore(self, value=1):
        return CoopSemaphore(value)

    def BoundedSemaphore(self, value=1):
        return CoopSemaphore(value, bounded=True)

    def __getattr__(self, name):
        return getattr(threading, name)


class TimeShim(types.ModuleType):
    def __init__(self):
        super().__init__("time_shim")

    def time(self):
        s = Scheduler.current
        return s.clock if s is not None else TimeShim.fallback_clock

    def sleep(self, secs):
        s = Scheduler.current
        if s is not None:
            s.sleep(secs)
        else:
            TimeShim.fallback_clock += max(0.0, secs or 0.0)

    def __getattr__(self, name):
        return getattr(_real_time, name)


TimeShim.fallback_clock = 1000.0


class UuidShim(types.ModuleType):
    counter = 0

    def __init__(self):
        super().__init__("uuid_shim")

    def uuid4(self):
        s = Scheduler.current
        if s is not None:
            return s.uuid4()
        UuidShim.counter += 1
        return _real_uuid.UUID(int=(0x5eed << 96) | UuidShim.counter)

    def __getattr__(self, name):
        return getattr(_real_uuid, name)


class Watch:
    """predicate(code) for Scheduler(watch=...).  With follow=True, functions defined in the same source files as the watched
    ones become watched too while they are called (directly) from a watched frame, except the code objects in `exclude`."""

    def __init__(self, codes, follow=False, exclude=()):
        self.codes = codes
        self.follow = follow
        self.files = {c.co_filename for c in codes}
        self.exclude = set(exclude)

    def __call__(self, code):
        return code in self.codes


def code_objects(*funcs):
    """the set of code objects behind functions / methods / classes (with nested functions)"""
    w = watch_functions(*funcs)
    return set(w.codes)


def watch_functions(*funcs, follow=False, exclude=()):
    """predicate for Scheduler(watch=...) from a list of functions / methods / classes"""
    codes = set()

    def add(f):
        if isinstance(f, type):
            for v in vars(f).values():
                add(v)
            return
        if isinstance(f, (staticmethod, classmethod)):
            f = f.__func__
        if isinstance(f, property):
            for g in (f.fget, f.fset, f.fdel):
                if g is not None:
                    add(g)
            return
        f = getattr(f, "__func__", f)
        code = getattr(f, "__code__", None)
        if code is not None and "/vf/" in code.co_filename:
            return    # harness-defined helpers (e.g. the deterministic Worker.__hash__) are never scheduling points
        if code is not None:
            codes.add(code)
            for c in code.co_consts:
                if isinstance(c, types.CodeType):
                    _add_code(c, codes)
    for f in funcs:
        add(f)
    return Watch(codes, follow, exclude)


def _add_code(code, codes):
    codes.add(code)
    for c in code.co_consts:
        if isinstance(c, types.CodeType):
            _add_code(c, codes)
