"""Shared helpers: shim installation into Pyro5 modules, stats -> evidence mapping."""
import itertools

from . import sched as S
from .explore import Stats, explore_subtree, root_and_children, HarnessError, digest


class EvaluationHang(BaseException):
    """a single evaluation of a sequential check did not come back (raised from the SIGALRM handler)"""


class deadline(object):
    """with deadline(s): ... - EvaluationHang if the block runs longer than s seconds of real time.
    Sequential checks have no scheduler that could notice a library loop that never ends; evaluations take micro- to
    milliseconds, the limits used are seconds, so machine load cannot trip it. Main thread only (no-op elsewhere)."""
    def __init__(self, seconds):
        self.seconds = seconds
        self.active = False

    def _alarm(self, signum, frame):
        raise EvaluationHang()

    def __enter__(self):
        import signal
        import threading
        if threading.current_thread() is threading.main_thread():
            self.active = True
            import time
            self.old = signal.signal(signal.SIGALRM, self._alarm)
            self.t0 = time.monotonic()
            self.outer = signal.setitimer(signal.ITIMER_REAL, self.seconds)[0]     # an enclosing deadline's remaining time (0: none)
        return self

    def __exit__(self, *exc):
        if self.active:
            import signal
            import time
            signal.setitimer(signal.ITIMER_REAL, 0)
            signal.signal(signal.SIGALRM, self.old)
            if self.outer > 0:
                signal.setitimer(signal.ITIMER_REAL, max(0.01, self.outer - (time.monotonic() - self.t0)))     # re-arm the enclosing deadline
        return False


def pyro_modules():
    from Pyro5 import server, client, socketutil, svr_threads, svr_multiplex, nameserver, protocol, core
    return dict(server=server, client=client, socketutil=socketutil, svr_threads=svr_threads,
                svr_multiplex=svr_multiplex, nameserver=nameserver, protocol=protocol, core=core)


_installed = {}


def install_shims(periodic_modules=("svr_threads",)):
    """replace the threading/time/uuid globals of the Pyro5 modules by cooperative shims (idempotent)"""
    if _installed:
        return
    mods = pyro_modules()
    tshim = S.TimeShim()
    ushim = S.UuidShim()
    for name, m in mods.items():
        if hasattr(m, "threading"):
            _installed[(name, "threading")] = m.threading
            m.threading = S.ThreadingShim(periodic_events=False)
        if hasattr(m, "time") and not callable(getattr(m, "time")):
            _installed[(name, "time")] = m.time
            m.time = tshim
        if hasattr(m, "uuid"):
            _installed[(name, "uuid")] = m.uuid
            m.uuid = ushim
    # Worker objects live in sets: give them a deterministic hash (creation index)
    st = mods["svr_threads"]
    if not hasattr(st.Worker, "_vf_orig_init"):
        st.Worker._vf_orig_init = st.Worker.__init__
        ctr = itertools.count()
        st.Worker._vf_counter = ctr

        def winit(self, pool):
            self._vf_idx = next(st.Worker._vf_counter)
            st.Worker._vf_orig_init(self, pool)
            self.name = "Pyro-Worker-%d" % self._vf_idx
        st.Worker.__init__ = winit
        st.Worker.__hash__ = lambda self: self._vf_idx
    # the housekeeper's periodic wait fires only on explicit ticks
    if not hasattr(st.Housekeeper, "_vf_orig_init"):
        st.Housekeeper._vf_orig_init = st.Housekeeper.__init__

        def hinit(self, daemon):
            st.Housekeeper._vf_orig_init(self, daemon)
            self.stop = S.CoopEvent("tick")
        st.Housekeeper.__init__ = hinit
    cooperate_static_locks()


def cooperate_static_locks():
    """locks that the library creates at import time (module globals, class attributes) were made before the shims existed:
    replace them by cooperative ones, or a thread preempted while holding one would block the others for real (idempotent)"""
    import sys
    import threading
    import inspect
    real = (type(threading.Lock()), type(threading.RLock()))
    n = 0
    for modname, m in list(sys.modules.items()):
        if m is None or not (modname == "Pyro5" or modname.startswith("Pyro5.")):
            continue
        for k, v in list(vars(m).items()):
            if isinstance(v, real):
                setattr(m, k, S.CoopLock(isinstance(v, real[1]), "%s.%s" % (modname, k)))
                n += 1
            elif inspect.isclass(v) and getattr(v, "__module__", None) == modname:
                for ck, cv in list(vars(v).items()):
                    if isinstance(cv, real):
                        setattr(v, ck, S.CoopLock(isinstance(cv, real[1]), "%s.%s.%s" % (modname, k, ck)))
                        n += 1
    return n


def reset_worker_counter():
    from Pyro5 import svr_threads
    svr_threads.Worker._vf_counter = itertools.count()


def coverage_from_stats(stats, rule, nontrivial=None, extra=None):
    cov = {
        "evaluations": stats.executions,
        "distinct_nontrivial": nontrivial if nontrivial is not None else len(stats.outcomes),
        "rule": rule,
        "samples": stats.samples[:5] or ["(none)"],
        "states": max(1, len(stats.states)) if stats.states else max(1, len(stats.outcomes)),
        "transitions": max(1, stats.points),
        "traces_validated_against_impl": stats.executions,
        "distinct_outcomes": len(stats.outcomes),
        "max_points_per_execution": stats.max_points,
        "caps_hit": {"horizon": stats.horizon_hits},
        "exhaustive": stats.horizon_hits == 0,
    }
    for k, v in stats.extra.items():
        cov[k] = sorted(v) if isinstance(v, set) else v
    if extra:
        cov.update(extra)
    return cov


def explore_parallel(ctx, task_fn, configs, p_bound_of, r_bound_of):
    """
    configs: list of json-able config dicts. For each config the root execution is run here to obtain
    the one-deviation prefixes; every (config, prefix) subtree is a work unit for the pool.
    task_fn((config, prefix, p, r)) -> Stats   (module-level function)
    """
    total = Stats()
    units = []
    for cfg in configs:
        units.append((cfg, None, p_bound_of(cfg), r_bound_of(cfg)))
    # phase 1: roots (parallel), returning child prefixes
    sub = []
    for st, kids, cfg, p, r in ctx.pmap(task_fn, units):
        total.merge(st)
        for k in kids:
            sub.append((cfg, k, p, r))
    # deterministic permutation by seed: order of visiting never changes verdicts
    if ctx.seed:
        import random
        random.Random(ctx.seed).shuffle(sub)
    # the subtrees with the largest remaining budget first, in small chunks, so that no worker is left with a long tail
    sub.sort(key=lambda u: -(2 * u[2] + min(u[3], 4)))
    for st, kids, cfg, p, r in ctx.pmap(task_fn, sub, chunksize=max(1, len(sub) // (ctx.jobs * 64) or 1)):
        total.merge(st)
    return total


def cfg_key(cfg):
    return ",".join("%s=%s" % (k, cfg[k]) for k in sorted(cfg) if k != "horizon")


def run_unit(run_fn_factory, unit):
    """generic body for task functions: unit = (cfg, prefix|None, p, r)"""
    cfg, prefix, p, r = unit
    run_fn = run_fn_factory(cfg)
    st = Stats()
    if prefix is None:
        kids = root_and_children(run_fn, p, r, st, horizon=cfg.get("horizon", 4000))
        return st, kids, cfg, p, r
    try:
        explore_subtree(run_fn, prefix, p, r, st, horizon=cfg.get("horizon", 4000))
    except HarnessError as x:
        raise HarnessError("%s [cfg=%r]" % (x, cfg))
    st.extra["executions_by_config"] = {cfg_key(cfg): st.executions}
    return st, [], cfg, p, r


class FormattingLogSink(object):
    """context manager: the 'Pyro5' loggers run at DEBUG level with a handler that formats every record (so the arguments of lazy
    '%s' log calls are really evaluated, as with PYRO_LOGLEVEL=DEBUG) into memory, without taking any lock of its own"""

    def __enter__(self):
        import logging

        class Sink(logging.Handler):
            def createLock(self):
                self.lock = None

            def handle(self, record):
                try:
                    self.records.append(record.getMessage())
                except Exception as x:       # a log call whose arguments cannot be formatted is reported by logging itself; keep going
                    self.records.append("unformattable: %r" % (x,))
                return True
        self.logger = logging.getLogger("Pyro5")
        self.sink = Sink()
        self.sink.records = []
        self.saved = (self.logger.level, self.logger.propagate, list(self.logger.handlers))
        self.logger.handlers = [self.sink]
        self.logger.setLevel(logging.DEBUG)
        self.logger.propagate = False
        return self.sink

    def __exit__(self, *a):
        self.logger.setLevel(self.saved[0])
        self.logger.propagate = self.saved[1]
        self.logger.handlers = self.saved[2]
        import logging
        logging.Logger.manager._clear_cache() if hasattr(logging.Logger.manager, "_clear_cache") else None
        return False
