"""
Command line runner: `python -m vf.runner <ID> [--tier quick|thorough] [--replay file]`

exit 0: property held on everything explored (known findings are printed as KNOWN-FINDING lines)
exit 1: prints `VIOLATION property=<id> replay=<path>`
exit 2: harness error
"""
import argparse
import importlib
import json
import multiprocessing
import os
import sys
import time
import traceback

VERIF = os.path.dirname(os.path.dirname(os.path.abspath(__file__)))
REPO = os.environ.get("PYRO5_VERIF_REPO", "/repo")


def _bootstrap_env():
    """re-exec with the deterministic environment if needed; put the repo under test first on sys.path"""
    need = {"PYTHONHASHSEED": os.environ.get("VF_HASHSEED", "0"), "PYRO5_VERIF": "1"}
    changed = False
    for k, v in need.items():
        if os.environ.get(k) != v:
            os.environ[k] = v
            changed = True
    if changed and os.environ.get("VF_REEXEC") != "1":
        os.environ["VF_REEXEC"] = "1"
        os.execv(sys.executable, [sys.executable, "-m", "vf.runner"] + sys.argv[1:])
    for k in list(os.environ):
        if k.startswith("PYRO_"):
            del os.environ[k]
    sys.path.insert(0, REPO)
    import Pyro5
    here = os.path.realpath(os.path.dirname(Pyro5.__file__))
    if not here.startswith(os.path.realpath(REPO)):
        print("HARNESS-ERROR: Pyro5 imported from %s, not from %s" % (here, REPO))
        sys.exit(2)
    sys.dont_write_bytecode = True


class _Guarded(object):
    """work unit wrapper: a unit that does not come back within the limit is a harness error with a message, not a silent hang
    (a mutated tree can make library code loop for ever inside a sequential check)"""
    def __init__(self, func, seconds):
        self.func = func
        self.seconds = seconds

    def __call__(self, unit):
        from vf.common import deadline, EvaluationHang
        from vf.explore import HarnessError
        try:
            with deadline(self.seconds):
                return self.func(unit)
        except EvaluationHang:
            raise HarnessError("work unit did not finish within %d s of real time (library code that never returns?): %s" % (self.seconds, repr(unit)[:300]))


class Ctx:
    def __init__(self, pid, tier, seed, jobs):
        self.property_id = pid
        self.tier = tier
        self.seed = seed
        self.jobs = jobs
        self._pool = None
        self.t0 = time.time()

    @property
    def quick(self):
        return self.tier == "quick"

    def pmap(self, func, tasks, chunksize=1):
        """run func over tasks on the worker pool (unordered); func must be a module-level function"""
        tasks = list(tasks)
        if self.jobs <= 1 or len(tasks) <= 1:
            for t in tasks:
                yield func(t)
            return
        if self._pool is None:
            mpctx = multiprocessing.get_context("fork")
            self._pool = mpctx.Pool(self.jobs)
        limit = int(os.environ.get("VF_UNIT_LIMIT", "0")) or (1200 if self.quick else 10800)
        for r in self._pool.imap_unordered(_Guarded(func, limit), tasks, chunksize):
            yield r

    def close(self):
        if self._pool is not None:
            self._pool.terminate()
            self._pool.join()
            self._pool = None


def load_known():
    path = os.path.join(VERIF, "known_findings.json")
    if not os.path.exists(path):
        return {"findings": [], "fixed": []}
    with open(path) as f:
        return json.load(f)


def main(argv=None):
    _bootstrap_env()
    ap = argparse.ArgumentParser()
    ap.add_argument("property")
    ap.add_argument("--tier", default=os.environ.get("VERIF_TIER", "quick"), choices=["quick", "thorough"])
    ap.add_argument("--replay", default=None)
    ap.add_argument("--jobs", type=int, default=int(os.environ.get("VF_JOBS", "0")) or min(16, os.cpu_count() or 1))
    ap.add_argument("--no-evidence", action="store_true")
    args = ap.parse_args(argv)
    pid = args.property.upper()
    try:
        seed = int(os.environ.get("VERIF_SEED", "0"))
    except ValueError:
        seed = 0
    mod = importlib.import_module("vf.checks.%s" % pid.lower())
    ctx = Ctx(pid, args.tier, seed, args.jobs)
    if args.replay:
        with open(args.replay) as f:
            payload = json.load(f)
        try:
            out = mod.replay(ctx, payload)
        except Exception:
            traceback.print_exc()
            return 2
        print(json.dumps(out, indent=1, default=repr))
        return 1 if out.get("violations") else 0
    t0 = time.time()
    try:
        result = mod.run(ctx)
    except Exception:
        traceback.print_exc()
        print("HARNESS-ERROR property=%s" % pid)
        ctx.close()
        return 2
    finally:
        ctx.close()
    wall = time.time() - t0
    known = load_known()
    known_fps = {k["fingerprint"]: k for k in known.get("findings", []) if k["property"] == pid}
    seen_known = {}
    new = []
    for v in result["violations"]:
        fp = v["fingerprint"]
        if fp in known_fps:
            seen_known.setdefault(fp, v)
        else:
            new.append(v)
    for fp, v in sorted(seen_known.items()):
        print("KNOWN-FINDING: property=%s %s :: %s" % (pid, fp, known_fps[fp].get("what", v.get("what", ""))))
    rc = 0
    reported = set()
    if new:
        rc = 1
        rdir = os.path.join(VERIF, "replays", pid)
        os.makedirs(rdir, exist_ok=True)
        for v in new:
            fp = v["fingerprint"]
            if fp in reported:
                continue
            reported.add(fp)
            from .explore import digest
            path = os.path.join(rdir, digest(fp) + ".json")
            with open(path, "w") as f:
                json.dump({"property": pid, "fingerprint": fp, "what": v.get("what"), "replay": v.get("replay"),
                           "choices": v.get("choices")}, f, indent=1, default=repr)
            print("VIOLATION property=%s replay=%s" % (pid, path))
            print("   fingerprint: %s" % fp)
            print("   what: %s" % str(v.get("what"))[:600])
    cov = dict(result["coverage"])
    cov.setdefault("exhaustive", True)
    ev = {
        "property_id": pid,
        "tier": args.tier,
        "seed": seed,
        "level": result.get("level", "model_checking"),
        "coverage": cov,
        "assumptions": result.get("assumptions", []),
        "wall_s": round(wall, 3),
        "violations": len(reported),
        "known_findings_seen": sorted(seen_known),
        "repo": REPO,
    }
    if not args.no_evidence and REPO == "/repo":
        os.makedirs(os.path.join(VERIF, "evidence"), exist_ok=True)
        with open(os.path.join(VERIF, "evidence", pid + ".json"), "w") as f:
            json.dump(ev, f, indent=1, default=repr)
    print("%s tier=%s %s wall=%.1fs evaluations=%s distinct=%s states=%s transitions=%s violations=%d known=%d" % (
        pid, args.tier, "FAIL" if rc else "ok", wall, cov.get("evaluations"), cov.get("distinct_nontrivial"),
        cov.get("states"), cov.get("transitions"), len(reported), len(seen_known)))
    # vacuity self-check
    if cov.get("distinct_nontrivial", 2) < 2 or cov.get("evaluations", 1) < 1:
        print("HARNESS-ERROR property=%s vacuous exploration" % pid)
        return 2
    return rc


if __name__ == "__main__":
    sys.exit(main())
