"""Value domain for the serialisation checks, and type-strict deep equality."""
import datetime
import decimal
import math
import uuid


def incompressible_text(n):
    x = 99991
    out = []
    while len(out) < n:
        x = (x * 1103515245 + 12345) & 0x7fffffff
        out.append(chr(33 + (x >> 16) % 90))
    return "".join(out)


CORE_ATOMS = [
    ("None", None), ("True", True), ("False", False), ("0", 0), ("1", 1), ("-1", -1),
    ("2^63-1", 2 ** 63 - 1), ("2^63", 2 ** 63), ("-2^63-1", -2 ** 63 - 1), ("2^64", 2 ** 64), ("2^200", 2 ** 200), ("-2^200", -2 ** 200),
    ("0.0", 0.0), ("-0.0", -0.0), ("1.5", 1.5), ("1e308", 1e308), ("5e-324", 5e-324), ("inf", float("inf")), ("-inf", float("-inf")), ("nan", float("nan")),
    ("''", ""), ("'a'", "a"), ("'é'", "é"), ("' '", " "), ("'\\x00'", "\x00"), ("'😀'", "\U0001F600"), ("'__class__'", "__class__"),
    ("s99", "x" * 99), ("s100", "y" * 100), ("s101", "z" * 101), ("s250", "ab" * 125), ("s300i", incompressible_text(300)),
]

EXT_ATOMS = [
    ("b''", b""), ("b'ab'", b"ab\x00\xff"), ("bytearray", bytearray(b"xyz")), ("complex", complex(1.5, -2)),
    ("uuid", uuid.UUID("12345678-1234-5678-1234-567812345678")), ("Decimal", decimal.Decimal("1.10")), ("Decimal12", decimal.Decimal("12")), ("Decimal-7E+2", decimal.Decimal("-7E+2")),
    ("date", datetime.date(2020, 2, 29)), ("datetime", datetime.datetime(2020, 2, 29, 12, 30, 15)),
    ("tuple()", ()), ("frozenset()", frozenset()),
]

SMALL = ["None", "True", "0", "2^64", "1.5", "nan", "'a'", "'é'", "s101", "-0.0"]


def same(a, b):
    """type-strict deep equality: bool is not int, list is not tuple, nan equals nan, -0.0 differs from 0.0"""
    if type(a) is not type(b):
        return False
    if isinstance(a, float):
        if math.isnan(a) or math.isnan(b):
            return math.isnan(a) and math.isnan(b)
        return a == b and math.copysign(1, a) == math.copysign(1, b)
    if isinstance(a, complex):
        return same(a.real, b.real) and same(a.imag, b.imag)
    if isinstance(a, (list, tuple)):
        return len(a) == len(b) and all(same(x, y) for x, y in zip(a, b))
    if isinstance(a, dict):
        if len(a) != len(b):
            return False
        for k, v in a.items():
            hit = [k2 for k2 in b if same(k, k2)]
            if len(hit) != 1 or not same(v, b[hit[0]]):
                return False
        return True
    if isinstance(a, (set, frozenset)):
        if len(a) != len(b):
            return False
        return all(any(same(x, y) for y in b) for x in a)
    if isinstance(a, memoryview):
        return bytes(a) == bytes(b)
    if isinstance(a, BaseException):
        return same(list(a.args), list(b.args)) and same({k: v for k, v in vars(a).items() if k != "_pyroTraceback"}, {k: v for k, v in vars(b).items() if k != "_pyroTraceback"})
    return a == b


def show(v, limit=80):
    r = repr(v)
    return r if len(r) <= limit else r[:limit - 3] + "..."


def trees(max_nodes, with_ext=True):
    """(label, value, is_core) for all value trees up to max_nodes nodes (1 = atoms)"""
    atoms = [(l, v, True) for l, v in CORE_ATOMS] + ([(l, v, False) for l, v in EXT_ATOMS] if with_ext else [])
    out = list(atoms)
    if max_nodes < 2:
        return out
    # one-child containers over every atom
    lvl2 = []
    for l, v, core in atoms:
        lvl2.append(("[%s]" % l, [v], core))
        lvl2.append(("{k:%s}" % l, {"k": v}, core))
        if with_ext:
            lvl2.append(("(%s,)" % l, (v,), False))
            lvl2.append(("{1:%s}" % l, {1: v}, False))
            try:
                hash(v)
                lvl2.append(("set{%s}" % l, {v}, False))
                lvl2.append(("fset{%s}" % l, frozenset([v]), False))
            except TypeError:
                pass
    out += lvl2
    if max_nodes < 3:
        return out
    small = [(l, v, c) for l, v, c in atoms if l in SMALL]
    for l1, v1, c1 in small:
        for l2, v2, c2 in small:
            out.append(("[%s,%s]" % (l1, l2), [v1, v2], True))
            out.append(("{a:%s,b:%s}" % (l1, l2), {"a": v1, "b": v2}, True))
            if with_ext:
                out.append(("(%s,%s)" % (l1, l2), (v1, v2), False))
    for l, v, core in lvl2:
        out.append(("[%s]" % l, [v], core))
        out.append(("{k:%s}" % l, {"k": v}, core))
        if with_ext and max_nodes >= 4:
            out.append(("(%s,)" % l, (v,), False))
    if with_ext:
        import uuid as _u
        u = _u.UUID(int=77)
        out.append(("[(1,2),uuid]", [(1, 2), u], False))
        out.append(("((1,2),uuid)", ((1, 2), u), False))
        out.append(("{k:(1,),j:uuid}", {"k": (1,), "j": u}, False))
        out.append(("[{1,2},uuid]", [{1, 2}, u], False))
        out.append(("[b'x',uuid]", [b"x", u], False))
    out.append(("{'é':{'😀':[]}}", {"é": {"\U0001F600": []}}, True))
    out.append(("[[],{}]", [[], {}], True))
    out.append(("[]", [], True))
    out.append(("{}", {}, True))
    out.append(("{'':''}", {"": ""}, True))
    # string keys that look like other things stay strings
    out.append(("{'1':'one'}", {"1": "one"}, True))
    out.append(("{'42':1,'-3':2,'0':3}", {"42": 1, "-3": 2, "0": 3}, True))
    out.append(("{'True':1,'null':2}", {"True": 1, "null": 2}, True))
    out.append(("{'1.5':[{'7':7}]}", {"1.5": [{"7": 7}]}, True))
    if max_nodes >= 4:
        for l, v, core in list(out):
            if l.startswith("[[") or l.startswith("{k:{") or l.startswith("{k:["):
                out.append(("[%s]" % l, [v], core))
                out.append(("{k:%s}" % l, {"k": v}, core))
        for l1, v1, c1 in small:
            for l2, v2, c2 in small[:5]:
                for l3, v3, c3 in small[5:]:
                    out.append(("[%s,%s,%s]" % (l1, l2, l3), [v1, v2, v3], True))
    return out
