"""Synchronous end-to-end world for the sequential (engine S) checks: real Daemon (multiplex transport server driven
through its real events() handler), real Proxy, in-memory sockets, a server thread of its own."""
import gc

from . import sched as S
from .common import install_shims
from .memnet import MemNet


class SyncWorld:
    def __init__(self, **cfg):
        from Pyro5 import config, server
        install_shims()
        config.reset(False)
        config.SERVERTYPE = "multiplex"
        for k, v in cfg.items():
            setattr(config, k, v)
        self.config = config
        self.net = MemNet()
        self.net.install()
        self.daemons = []
        self._oneway_start = server._OnewayCallThread.start

        def start_and_join(t):
            S._orig_start(t)
            S._orig_join(t)
        server._OnewayCallThread.start = start_and_join
        import threading
        self._excepthook = threading.excepthook
        threading.excepthook = lambda args: None     # uncaught errors of oneway threads are the harness' business, not stderr's
        self._port = 0

    def daemon(self, cls=None, **kw):
        from Pyro5 import server
        cls = cls or server.Daemon
        self._port += 1
        d = cls(host="h", port=self._port, **kw)
        self.net.attach_sync(d)
        self.daemons.append(d)
        return d

    def on_server(self, fn):
        return self.net.on_server(fn)

    def close(self):
        from Pyro5 import server, config
        for d in self.daemons:
            try:
                self.net.detach_sync(d)
                d.close()
            except Exception:
                pass
        self.daemons = []
        server._OnewayCallThread.start = self._oneway_start
        import threading
        threading.excepthook = self._excepthook
        self.net.uninstall()
        config.reset(False)

    def __enter__(self):
        return self

    def __exit__(self, *a):
        self.close()
