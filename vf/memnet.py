"""
Engine N: in-memory sockets, listeners and selectors (DESIGN.md 2.3).

Two modes:
  * scheduled (a vf.sched.Scheduler is installed): every socket/selector operation is a scheduling point and
    blocking is modelled through Scheduler.block();
  * synchronous (no scheduler): a client write immediately pumps the attached daemons' real multiplex event
    handler on a dedicated server thread; used by the sequential (engine S) end-to-end checks.
"""
import collections
import errno
import queue
import selectors as _real_selectors
import socket
import select as _real_select_module
import threading
import types

from . import sched as S
from .explore import HarnessError

EVENT_READ = _real_selectors.EVENT_READ
EVENT_WRITE = _real_selectors.EVENT_WRITE
SelectorKey = _real_selectors.SelectorKey


class MemSocket:
    family = socket.AF_INET
    type = socket.SOCK_STREAM

    def __init__(self, net, name, addr, peeraddr, accepted_later=False):
        self.net = net
        self.name = name
        self.addr = addr
        self.peeraddr = peeraddr
        self.peer = None
        self.buf = bytearray()
        self.closed = False
        self.eof = False          # peer closed / shut down its writing side
        self.reset = False        # peer reset: errors instead of EOF
        self.timeout = None
        self.fd = net.next_fd()       # unique for the lifetime of the network (identity for the harness)
        # what fileno() reports: the lowest free descriptor number, reused after close like the kernel's (the server end of a
        # connection gets its number when accept() returns it, not when the peer connects)
        self.kfd = None if accepted_later else net.alloc_kfd()
        self.bytes_in = 0         # bytes written to this end by the peer
        self.bytes_read = 0
        self.sent = bytearray()   # everything this end wrote (for oracles)
        self.recv_hook = None     # optional callable(sock, n, available) -> k bytes to deliver
        self.close_count = 0

    def __repr__(self):
        return "<MemSocket %s fd=%d%s>" % (self.name, self.fd, " closed" if self.closed else "")

    # -- helpers
    def readable(self):
        return bool(self.buf) or self.eof or self.reset or self.closed

    def _sched(self):
        s = S.Scheduler.current
        if s is None or s.aborting or s.me() is None:
            return None
        return s

    def recv(self, n, flags=0):
        s = self._sched()
        if s is not None:
            s.point("recv")
        if self.closed:
            raise OSError(errno.EBADF, "Bad file descriptor (mem)")
        if n == 0:
            return b""
        if not self.readable():
            if s is not None:
                ok = s.block(self.readable, tmode=("idle" if self.timeout else None), what="recv %s" % self.name)
                if not ok:
                    raise socket.timeout("timed out (mem)")
                if self.closed:
                    raise OSError(errno.EBADF, "Bad file descriptor (mem)")
            else:
                if S.Scheduler.current is not None and S.Scheduler.current.aborting:
                    raise S.AbortExecution()
                # synchronous mode: nothing will ever arrive while we wait
                raise socket.timeout("timed out (mem, nothing to read)")
        if self.buf:
            k = min(n, len(self.buf))
            if self.recv_hook is not None:
                k = max(1, min(k, self.recv_hook(self, n, len(self.buf))))
            data = bytes(self.buf[:k])
            if flags & socket.MSG_PEEK:
                return data          # looked at, not consumed
            del self.buf[:k]
            self.bytes_read += k
            return data
        if self.reset:
            raise ConnectionResetError(errno.ECONNRESET, "Connection reset by peer (mem)")
        return b""

    def recv_into(self, buffer, nbytes=0, flags=0):
        mv = memoryview(buffer).cast("B")
        n = nbytes or len(mv)
        data = self.recv(min(n, len(mv)), flags)
        mv[:len(data)] = data
        return len(data)

    def _deliver(self, data):
        p = self.peer
        if self.closed:
            raise OSError(errno.EBADF, "Bad file descriptor (mem)")
        if self.reset or p is None or p.closed:
            raise BrokenPipeError(errno.EPIPE, "Broken pipe (mem)")
        data = bytes(data)
        hook = self.net.wire_hook
        if hook is not None:
            data = hook(self, data)
            if data is None:
                return
        p.buf.extend(data)
        p.bytes_in += len(data)
        self.sent.extend(data)

    def sendall(self, data):
        s = self._sched()
        if s is not None:
            s.point("send")
        self._deliver(data)
        self.net.after_send(self)

    def send(self, data):
        self.sendall(data)
        return len(data)

    def shutdown(self, how):
        if self.closed:
            raise OSError(errno.EBADF, "Bad file descriptor (mem)")
        if self.reset:
            raise OSError(errno.ENOTCONN, "Transport endpoint is not connected (mem)")
        if self.peer is not None:
            self.peer.eof = True

    def close(self):
        self.close_count += 1
        if self.closed:
            return
        self.closed = True
        self.net.release_kfd(self.kfd)
        if self.peer is not None:
            self.peer.eof = True
        self.net.after_close(self)

    def do_reset(self):
        """abortive close: the peer sees ECONNRESET instead of an orderly end of stream"""
        if not self.closed:
            self.net.release_kfd(self.kfd)
        self.closed = True
        if self.peer is not None:
            self.peer.reset = True
            self.peer.eof = True
        self.net.after_close(self)

    def settimeout(self, t):
        self.timeout = t

    def gettimeout(self):
        return self.timeout

    def getpeername(self):
        if self.closed:
            raise OSError(errno.EBADF, "Bad file descriptor (mem)")
        if self.reset:
            raise OSError(errno.ENOTCONN, "Transport endpoint is not connected (mem)")     # as on Linux once the peer's RST has arrived
        return self.peeraddr

    def getsockname(self):
        return self.addr

    def setsockopt(self, *a):
        pass

    def fileno(self):
        return self.kfd if (not self.closed and self.kfd is not None) else -1

    def setblocking(self, flag):
        self.timeout = None if flag else 0.0


class MemListener:
    family = socket.AF_INET
    type = socket.SOCK_STREAM

    def __init__(self, net, addr):
        self.net = net
        self.addr = addr
        self.queue = collections.deque()
        self.closed = False
        self.timeout = None
        self.fd = net.next_fd()
        self.kfd = net.alloc_kfd()

    def __repr__(self):
        return "<MemListener %s:%s>" % self.addr

    def _sync_ready(self):
        # synchronous world: a connection whose client has not written (or gone away) yet is not offered to the daemon - its handshake
        # would find nothing to read, where a real server simply waits for the first bytes
        return [s for s in self.queue if s.buf or s.eof or s.reset]

    def readable(self):
        if S.Scheduler.current is None and self.net.sync_daemons:
            return bool(self._sync_ready()) or self.closed
        return bool(self.queue) or self.closed

    def accept(self):
        s = S.Scheduler.current
        if s is not None and (s.aborting or s.me() is None):
            s = None
        if s is not None:
            s.point("accept")
        if self.closed:
            raise OSError(errno.EBADF, "Bad file descriptor (mem listener)")
        if self.net.accept_faults > 0 and self.queue:
            # environment fault: the process is out of descriptors for a while (accept fails, the pending connection stays queued)
            self.net.accept_faults -= 1
            raise OSError(errno.EMFILE, "Too many open files (mem)")
        if not self.queue:
            if s is None:
                raise socket.timeout("accept timed out (mem)")
            ok = s.block(self.readable, tmode=("tick" if self.timeout else None), what="accept")
            if not ok or not self.queue:
                if self.closed:
                    raise OSError(errno.EBADF, "Bad file descriptor (mem listener)")
                raise socket.timeout("accept timed out (mem)")
        if S.Scheduler.current is None and self.net.sync_daemons and self._sync_ready():
            sock = self._sync_ready()[0]
            self.queue.remove(sock)
        else:
            sock = self.queue.popleft()
        if sock.kfd is None and not sock.closed:
            sock.kfd = self.net.alloc_kfd()
        return sock, sock.peeraddr

    def close(self):
        if not self.closed:
            self.net.release_kfd(self.kfd)
        self.closed = True
        self.net.listeners.pop(self.addr, None)

    def getsockname(self):
        return self.addr

    def settimeout(self, t):
        self.timeout = t

    def gettimeout(self):
        return self.timeout

    def setsockopt(self, *a):
        pass

    def fileno(self):
        return self.kfd if not self.closed else -1

    def shutdown(self, how):
        pass


def _raw(fileobj):
    return getattr(fileobj, "sock", fileobj)


class MemSelector:
    def __init__(self):
        self.map = {}
        self.closed = False

    def register(self, fileobj, events, data=None):
        # like selectors.BaseSelector: keyed by the descriptor number fileno() reports now
        fd = _raw(fileobj).fileno()
        if fd < 0:
            raise ValueError("Invalid file descriptor: {}".format(fd))
        if fd in self.map:
            raise KeyError("{!r} (FD {}) is already registered".format(fileobj, fd))
        key = SelectorKey(fileobj, fd, events, data)
        self.map[fd] = key
        return key

    def unregister(self, fileobj):
        fd = _raw(fileobj).fileno()
        if fd < 0 or fd not in self.map or self.map[fd].fileobj is not fileobj:
            # a closed object is looked up by identity (as the real selectors do); unknown objects are a KeyError
            for k in self.map.values():
                if k.fileobj is fileobj:
                    fd = k.fd
                    break
            else:
                if fd < 0:
                    raise ValueError("Invalid file descriptor: {}".format(fd))
                raise KeyError("{!r} is not registered".format(fileobj))
        return self.map.pop(fd)

    def get_map(self):
        return None if self.closed else self.map

    def close(self):
        self.closed = True
        self.map = {}

    def _ready(self):
        return [(k, EVENT_READ) for k in list(self.map.values()) if (k.events & EVENT_READ) and _raw(k.fileobj).readable()]

    def select(self, timeout=None):
        s = S.Scheduler.current
        if s is not None and (s.aborting or s.me() is None):
            s = None
        if s is not None:
            s.point("select")
        r = self._ready()
        if not r and s is not None:
            s.block(lambda: bool(self._ready()) or self.closed, tmode=("tick" if timeout is not None else None), what="select")
            r = self._ready()
        if s is not None and len(r) > 1 and self.order_choice:
            # the order in which the kernel reports several ready descriptors is not defined: registration order by default,
            # the reverse as a (budgeted) deviation
            if s.chooser.choose("select-order", 2, [(0, 0), (1, 0)]):
                r = r[::-1]
        return r

    order_choice = True


class SelectModuleShim(types.ModuleType):
    """stands in for the 'select' module in socketutil: readiness of in-memory sockets, answered at once (timeout 0 semantics; a
    longer timeout is a scheduling point and then answered)"""

    def __init__(self):
        super().__init__("select_shim")

    def select(self, rlist, wlist, xlist, timeout=None):
        s = S.Scheduler.current
        if s is not None and not s.aborting and s.me() is not None:
            s.point("select.select")
        raw = [getattr(x, "sock", x) for x in rlist]
        if not all(isinstance(x, (MemSocket, MemListener)) for x in raw + [getattr(x, "sock", x) for x in wlist]):
            return _real_select_module.select(rlist, wlist, xlist, timeout)
        r = [x for x, rx in zip(rlist, raw) if (rx.closed or rx.readable())]
        w = [x for x in wlist if not getattr(x, "sock", x).closed]
        return r, w, []

    def __getattr__(self, name):
        return getattr(_real_select_module, name)


class SelectorsShim(types.ModuleType):
    def __init__(self):
        super().__init__("selectors_shim")
        self.EVENT_READ = EVENT_READ
        self.EVENT_WRITE = EVENT_WRITE

    def DefaultSelector(self):
        return MemSelector()

    def __getattr__(self, name):
        return getattr(_real_selectors, name)


class ServerThread(threading.Thread):
    """runs callables on a thread of its own, so that the daemon's thread-local call context is not the client's"""
    def __init__(self):
        super().__init__(name="vf-server-thread", daemon=True)
        self.q = queue.Queue()
        self.r = queue.Queue()
        S._orig_start(self)

    def run(self):
        while True:
            fn = self.q.get()
            if fn is None:
                return
            try:
                self.r.put((True, fn()))
            except BaseException as x:
                self.r.put((False, x))

    def call(self, fn):
        if threading.current_thread() is self:
            return fn()
        self.q.put(fn)
        ok, val = self.r.get()
        if not ok:
            raise val
        return val

    def stop(self):
        self.q.put(None)


class MemNet:
    def __init__(self):
        self.listeners = {}
        self._fd = 1000
        self._kfds = set()
        self.accept_faults = 0     # the next N accept() calls with a connection pending fail with EMFILE
        self._port = 50000
        self._cport = 40000
        self.sockets = []
        self.wire_hook = None      # callable(sending socket, data) -> data | None (message adversary)
        self.sync_daemons = []     # daemons pumped synchronously
        self.server_thread = None
        self.pumping = False
        self.pump_errors = []
        self.installed = None
        self.connect_hook = None

    def next_fd(self):
        self._fd += 1
        return self._fd

    def alloc_kfd(self):
        k = 2003      # (numbers no real descriptor of this process has: OS-level calls on them fail instead of touching real files)
        while k in self._kfds:
            k += 1
        self._kfds.add(k)
        return k

    def release_kfd(self, k):
        if k is not None:
            self._kfds.discard(k)

    # ------------------------------------------------------------------ installation
    def install(self):
        from Pyro5 import socketutil, svr_threads, svr_multiplex
        if self.installed:
            return
        self.installed = (socketutil.create_socket, svr_threads.selectors, svr_multiplex.selectors)
        self._real_select = socketutil.select
        shim_sel = SelectModuleShim()
        socketutil.select = shim_sel
        # any other library module that imports 'select' for itself gets the in-memory one too
        self._other_select = []
        import sys
        for name, mod in list(sys.modules.items()):
            if name.startswith("Pyro5.") and mod is not socketutil and getattr(mod, "select", None) is _real_select_module:
                self._other_select.append(mod)
                mod.select = shim_sel
        socketutil.create_socket = self.create_socket
        shim = SelectorsShim()
        svr_threads.selectors = shim
        svr_multiplex.selectors = shim

    def uninstall(self):
        from Pyro5 import socketutil, svr_threads, svr_multiplex
        if self.installed:
            socketutil.create_socket, svr_threads.selectors, svr_multiplex.selectors = self.installed
            socketutil.select = self._real_select
            for mod in getattr(self, "_other_select", ()):
                mod.select = _real_select_module
            self._other_select = []
            self.installed = None
        if self.server_thread is not None:
            self.server_thread.stop()
            self.server_thread = None

    # ------------------------------------------------------------------ socket factory
    def create_socket(self, bind=None, connect=None, reuseaddr=False, keepalive=True, timeout=-1, noinherit=False,
                      ipv6=False, nodelay=True, sslContext=None):
        if bind and connect:
            raise ValueError("bind and connect cannot both be specified at the same time")
        if timeout == 0 or timeout == -1:
            timeout = None
        if bind:
            if isinstance(bind, str):
                addr = (bind, 0)
            else:
                host, port = bind[0], bind[1]
                if not port:
                    self._port += 1
                    port = self._port
                addr = (host or "localhost", port)
            if addr in self.listeners:
                raise OSError(errno.EADDRINUSE, "Address already in use (mem)")
            lst = MemListener(self, addr)
            lst.timeout = timeout
            self.listeners[addr] = lst
            return lst
        if connect:
            addr = (connect, 0) if isinstance(connect, str) else (connect[0], connect[1])
            lst = self.listeners.get(addr)
            if lst is None:
                for a, l in self.listeners.items():
                    if a[1] == addr[1] and addr[1]:
                        lst = l
                        break
            if lst is None or lst.closed:
                raise ConnectionRefusedError(errno.ECONNREFUSED, "Connection refused (mem) %r" % (addr,))
            self._cport += 1
            caddr = ("client", self._cport)
            c = MemSocket(self, "c%d" % self._cport, caddr, lst.addr)
            srv = MemSocket(self, "s%d" % self._cport, lst.addr, caddr, accepted_later=True)
            c.peer, srv.peer = srv, c
            c.timeout = timeout
            self.sockets.append((c, srv))
            lst.queue.append(srv)
            if self.connect_hook is not None:
                self.connect_hook(c, srv)
            s = S.Scheduler.current
            if s is not None and not s.aborting and s.me() is not None:
                s.point("connect")
            # synchronous mode: the daemon is pumped when the client writes (or closes), not at connect time,
            # because its handshake would find nothing to read yet
            return c
        raise ValueError("mem: need bind or connect")

    # ------------------------------------------------------------------ synchronous pumping
    def attach_sync(self, daemon):
        """pump this daemon's real (multiplex) event handler whenever a client wrote something"""
        if self.server_thread is None:
            self.server_thread = ServerThread()
        self.sync_daemons.append(daemon)

    def detach_sync(self, daemon):
        if daemon in self.sync_daemons:
            self.sync_daemons.remove(daemon)

    def on_server(self, fn):
        if self.server_thread is None:
            self.server_thread = ServerThread()
        return self.server_thread.call(fn)

    def after_send(self, sock):
        if S.Scheduler.current is None and not sock.name.startswith("s"):
            self.pump()

    def after_close(self, sock):
        if S.Scheduler.current is None and not sock.name.startswith("s"):
            self.pump()

    def pump(self):
        if self.pumping or not self.sync_daemons or S.Scheduler.current is not None:
            return
        if threading.current_thread() is self.server_thread:
            return      # the daemon itself acts as a client (nested proxy call): handled when it reads
        self.pumping = True
        try:
            for _ in range(10000):
                progressed = False
                for d in list(self.sync_daemons):
                    ts = d.transportServer
                    if ts is None or ts.selector.get_map() is None:
                        continue
                    ready = [k.fileobj for k, _ in ts.selector.select(0)]
                    if ready:
                        progressed = True
                        try:
                            self.server_thread.call(lambda: ts.events(ready))
                        except Exception as x:    # the real loop() would have died here
                            self.pump_errors.append(x)
                if not progressed:
                    return
            raise HarnessError("pump did not quiesce")
        finally:
            self.pumping = False


def raw_client(net, addr):
    """a bare client socket for hand-built messages (attackers, wire-level harnesses)"""
    return net.create_socket(connect=addr)
